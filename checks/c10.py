"""C10 — tree addressing is a bijection and node resolution is order-independent: structural clauses
(a path element writer/reader agreement, b match_feature looks only downward, c resolver caches by path only)."""
from __future__ import annotations

import ast
import re

from vlib.flow import parent_map
from vlib.core import AnalysisError, Report
from vlib.grammar import GrammarModel
from vlib.nodemodel import NodeModel
from vlib.match import X, atoms, calls, closure, closure_fi, deref, facts, has_call, nodes
from vlib.srcindex import ClassInfo, FuncInfo, SourceIndex, attr_chain, const_str, unparse, walk_no_nested

EXPLANATION = (
	'(a) the writer of path elements (EntryPath.identify, ASTFinder.full_pathfy) and the readers (EntryPath.__break_tag, de_identify, ASTFinder.__pluck) agree: element = tag, or tag[index] with the positional child index exactly when the tag repeats '
	'among siblings; the index branch of __pluck addresses children positionally and the plain branch by tag; the separator is the one DSN.join/elements use; no grammar tag or terminal name contains ".", "[" or "]" (so a plain tag can never collide with an indexed element). '
	'(b) every match_feature (and the helpers it calls) inspects only the entry path, the tokens and downward navigation of the candidate node — never parent/ancestor/sibling/scope/id members, and assigns no attribute or global; '
	'child properties it reads are verified downward by the same rule. (c) NodeResolver.resolve caches by full path only and takes the first accepting class, so the chosen class is a function of the tree. '
	'pluck(T, p) is e over all trees, document-order ids and mutual agreement of the queries are not decided.'
)
ASSUMPTIONS = ['upward navigation is recognised by member name (parent, _ancestor, _siblings, scope, namespace, fullyname, id, declare, class_types, ...)']
TRUSTED_BASE = ['CPython ast', 'lark compiled grammar (tag and terminal names)']

FINDER = 'rogw/tranp/syntax/ast/finder.py'
PATH = 'rogw/tranp/syntax/ast/path.py'
DSN_PY = 'rogw/tranp/dsn/dsn.py'
RESOLVER = 'rogw/tranp/syntax/node/resolver.py'

UPWARD = {'parent', '_ancestor', '_siblings', 'scope', 'namespace', 'fullyname', 'id', 'declare', 'class_types', 'source_map', 'module_path', '_at_child'}
DOWNWARD = {'_full_path', 'full_path', 'tokens', '_children', '_at', '_by', '_exists', '_under_expand', 'query_raw', 'is_a', 'as_a', 'one_of', 'tag', '_values'}


def run(rep: Report, tier: str) -> None:
	idx = SourceIndex()
	rule_a(rep, idx)
	rule_b(rep, idx)
	rule_c(rep, idx)
	rule_d(rep, idx)
	rule_e(rep, idx)
	rule_f(rep, idx)
	rule_g(rep, idx)
	rule_h(rep, idx)
	rule_i(rep, idx)
	rule_j(rep, idx)
	rule_k(rep, idx)


def rule_a(rep: Report, idx: SourceIndex) -> None:
	r = rep.rule('C10/path-element-codec', 'writer and readers of path elements agree on `tag` / `tag[index]`, on when the index is written, on positional indexing and on the separator', floor=8)
	fm, pm, dm = idx.mod(FINDER), idx.mod(PATH), idx.mod(DSN_PY)
	rep.consulted(FINDER, PATH, DSN_PY)
	ident = pm.func('EntryPath.identify')
	js = next((n for n in ast.walk(ident.node) if isinstance(n, ast.JoinedStr)), None)
	parts = []
	if js is not None:
		for v in js.values:
			parts.append(v.value if isinstance(v, ast.Constant) else '{' + unparse(v.value) + '}')
	r.check(parts == ['{entry_tag}', '[', '{index}', ']'], 'writer-format', ident.where, f'EntryPath.identify writes {parts}; readers expect tag[index]')
	bt = pm.func('EntryPath.__break_tag')
	btx = closure(bt)
	# the reader inverts the writer: evaluated on representatives of the two forms identify() writes (`tag`, `tag[<position>]` with one, two and three
	# digits) by the evaluator of vlib/dsneval.py; whatever it cannot evaluate falls back to the shape test below
	from vlib import dsneval
	reps_ = {'tag': ['tag', -1], 'tag[0]': ['tag', 0], 'tag[3]': ['tag', 3], 'tag[12]': ['tag', 12], 'tag[120]': ['tag', 120]}
	got_ = {t: dsneval.call_function(pm.cls('EntryPath'), '__break_tag', [t], {}, 0) for t in reps_}
	evaluated = all(v is not dsneval.UNKNOWN for v in got_.values())
	if evaluated:
		for t, want in reps_.items():
			g_ = list(got_[t]) if isinstance(got_[t], (list, tuple)) else got_[t]
			r.check(g_ == want, f'reader-break-tag:{t}', bt.where, f'EntryPath.__break_tag reads the path element `{t}` as {g_}; EntryPath.identify wrote it for (tag, position) = {tuple(want)}: an indexed element with a position of two or more digits is looked up at another child — pluck / exists / find return a different existing entry (a block with more than ten statements), silently', f'{t} -> {g_}')
	closes = [c for c in calls(btx, 'endswith') if c.args and const_str(c.args[0]) == ']']
	opens = [c for c in calls(btx, ('split', 'partition', 'rpartition', 'index', 'find', 'rfind', 'rsplit')) if c.args and const_str(c.args[0]) == '[']
	ints = calls(btx, 'int')
	plain = [n for n in nodes(btx, ast.Tuple) if len(n.elts) == 2 and isinstance(n.elts[1], (ast.Constant, ast.UnaryOp)) and isinstance(n.ctx, ast.Load)]
	if evaluated:
		pass
	elif closes and opens and ints and plain:
		r.check(all(unparse(n.elts[1]) == '-1' for n in plain), 'reader-break-tag', bt.where, f'__break_tag must yield index -1 for a plain tag (the readers test `index != -1`): returns {[unparse(n) for n in plain]}', unparse(plain[0]))
		for c in ints:
			inner = unparse(c.args[0]) if c.args else ''
			r.check('[:-1]' in inner or "rstrip(']')" in inner or "strip(']')" in inner or "removesuffix(']')" in inner or (c.args and isinstance(c.args[0], ast.Name)), 'reader-break-tag:index-text', bt.where, f'the index text of tag[index] must exclude the closing bracket: int({inner})', unparse(c))
	else:
		r.skip('reader-break-tag', bt.where, '__break_tag no longer has the endswith("]") / split("[") / int(...) / (elem, -1) shape')
	di = pm.func('EntryPath.de_identify')
	pat = next((const_str(n.args[0]) for n in ast.walk(di.node) if isinstance(n, ast.Call) and attr_chain(n.func) == 're.sub' and n.args), None)
	if pat is None:
		# a precompiled pattern: `<NAME>.sub(...)` with NAME = re.compile(<const>) at module or class level, or `re.compile(<const>).sub(...)`
		for n in ast.walk(di.node):
			if isinstance(n, ast.Call) and isinstance(n.func, ast.Attribute) and n.func.attr == 'sub':
				src = n.func.value
				if isinstance(src, (ast.Name, ast.Attribute)):
					nm = src.id if isinstance(src, ast.Name) else src.attr
					src = next((a.value for a in ast.walk(pm.tree) if isinstance(a, (ast.Assign, ast.AnnAssign)) and a.value is not None and any(isinstance(t, ast.Name) and t.id == nm for t in (a.targets if isinstance(a, ast.Assign) else [a.target]))), None)
				if isinstance(src, ast.Call) and attr_chain(src.func) == 're.compile' and src.args:
					pat = const_str(src.args[0])
	ok = False
	if pat is None:
		r.skip('reader-de-identify', di.where, 'de_identify no longer removes the indices with a constant regular expression (re.sub / a compiled pattern)')
	if pat is not None:
		try:
			ok = re.sub(pat, '', 'a[0].b[12].c') == 'a.b.c' and re.sub(pat, '', 'a.b') == 'a.b'
			# the index is the position among the siblings and has no upper bound (a module with more than a hundred statements, a long argument list):
			# representatives with three and seven digits, and the regex AST — every repeat over the digits is unbounded above
			ok = ok and re.sub(pat, '', 'a[0].b[12].c[120].d[1234567].e') == 'a.b.c.d.e'
			import re._parser as _rp
			def _bounded(items) -> bool:
				for op, av in items:
					if op in (_rp.MAX_REPEAT, _rp.MIN_REPEAT):
						lo_, hi_, sub = av
						if hi_ != _rp.MAXREPEAT and any(o2 == _rp.IN or (o2 == _rp.CATEGORY) for o2, _ in sub):
							return True
						if _bounded(sub):
							return True
					elif op == _rp.SUBPATTERN and _bounded(av[-1]):
						return True
					elif op == _rp.BRANCH and any(_bounded(b) for b in av[1]):
						return True
				return False
			digit_runs = [1 for op, av in _rp.parse(pat) if op in (_rp.MAX_REPEAT, _rp.MIN_REPEAT)]
			ok = ok and not _bounded(_rp.parse(pat)) and (bool(digit_runs) or re.sub(pat, '', 'x[' + '9' * 40 + ']') == 'x')
		except re.error:
			ok = False
	if pat is not None:
		r.check(ok, 'reader-de-identify', di.where, f'de_identify pattern {pat!r} does not strip exactly the [index] suffixes the writer produces')
	fp = fm.func('ASTFinder.full_pathfy')
	for fn in closure(fp):
		joins = [c for c in calls(fn, 'EntryPath.join')]
		idents = [c for c in calls(fn, 'EntryPath.identify')]
		if not joins or not idents:
			continue
		uniq = lambda c: [(t, p) for t, p in facts(fn, c) if re.search(r'len\(.*\) (==|!=|>|<=) 1$', t)]
		fj, fi = uniq(joins[0]), uniq(idents[0])
		truth = lambda t, p: p if t.endswith(('== 1', '<= 1')) else not p
		if fj and fi:
			r.check(all(truth(t, p) for t, p in fj) and not any(truth(t, p) for t, p in fi), 'writer-unique-plain', fp.where, f'full_pathfy must write the plain tag exactly when the tag is unique among the siblings and tag[index] otherwise (plain under {fj}, indexed under {fi})', unparse(joins[0]))
			r.check(all('.name' in t or 'tag' in t for t, _ in fj), 'writer-unique-plain:by-tag', fp.where, f'the sibling count must be that of the entry\'s own tag: {fj}')
		elif facts(fn, joins[0]) == facts(fn, idents[0]):
			r.violate('writer-unique-plain', fp.where, 'full_pathfy no longer chooses between the plain tag and tag[index]', unparse(joins[0]))
		else:
			r.skip('writer-unique-plain', fp.where, 'the plain/indexed choice is no longer a `len(siblings with this tag) == 1` test')
		# the written index is the position among all children
		ia = idents[0].args[2] if len(idents[0].args) >= 3 else None
		enum_targets = [n.target.elts[0].id for n in nodes(fn, (ast.For, ast.comprehension)) if isinstance(n.target, ast.Tuple) and n.target.elts and isinstance(n.target.elts[0], ast.Name) and isinstance(deref(fn, n.iter), ast.Call) and unparse(deref(fn, n.iter).func) == 'enumerate' and len(deref(fn, n.iter).args) == 1]
		if ia is not None and enum_targets:
			r.check(isinstance(ia, ast.Name) and ia.id in enum_targets, 'writer-positional-index', fp.where, f'the index written by EntryPath.identify must be the position among all children (enumerate index): `{unparse(ia)}`', unparse(idents[0]))
		else:
			r.skip('writer-positional-index', fp.where, 'no enumerate() loop feeding EntryPath.identify')
		break
	else:
		r.skip('writer-unique-plain', fp.where, 'full_pathfy no longer calls EntryPath.join and EntryPath.identify')
	al = fm.func('ASTFinder.__aligned_children')
	alx = closure(al)
	if has_call(alx, 'enumerate') and any(isinstance(n, ast.Attribute) and n.attr == 'name' for n in nodes(alx)):
		r.ok('writer-sibling-count', al.where)
	else:
		r.skip('writer-sibling-count', al.where, '__aligned_children no longer groups enumerate() positions by entry name')
	pl = fm.func('ASTFinder.__pluck')
	plx = closure(pl, 1)
	first = [n for n in nodes(plx, ast.Assign) if isinstance(n.targets[0], ast.Tuple) and len(n.targets[0].elts) == 2 and unparse(n.value).endswith('.first')]
	names_ = None
	if first:
		names_ = tuple(unparse(e) for e in first[0].targets[0].elts)
	else:
		# the same unpacking through the parameters of a private helper: `self.__pick_child(entry.children, *path.first)` with `def __pick_child(self, children, tag, index)`
		for c_ in nodes(plx, ast.Call):
			star = [i for i, a in enumerate(c_.args) if isinstance(a, ast.Starred) and unparse(a.value).endswith('.first')]
			if len(star) == 1 and star[0] == len(c_.args) - 1 and isinstance(c_.func, ast.Attribute) and isinstance(c_.func.value, ast.Name) and c_.func.value.id in ('self', 'cls'):
				g_ = fm.cls('ASTFinder').method(c_.func.attr) if fm.cls('ASTFinder') else None
				if g_ is not None:
					gp = [p_ for p_ in g_.params() if p_ not in ('self', 'cls')]
					if len(gp) == star[0] + 2:
						names_ = (gp[star[0]], gp[star[0] + 1])
	if names_ is None:
		r.skip('reader-positional', pl.where, '__pluck no longer unpacks (tag, index) = path.first')
		r.skip('reader-by-tag', pl.where, '__pluck no longer unpacks (tag, index) = path.first')
	else:
		tagv, idxv = names_
		subs = [(fn, n) for fn in plx for n in nodes(fn, ast.Subscript) if unparse(n.value).endswith('children') and isinstance(n.ctx, ast.Load) and idxv in {x.id for x in ast.walk(n.slice) if isinstance(x, ast.Name)}]
		if not subs:
			r.skip('reader-positional', pl.where, 'no children[index] read in __pluck')
		for fn_, n in subs:
			fs = [(t, p) for t, p in facts(fn_, n)]
			indexed = any((t == f'{idxv} != -1' and p) or (t == f'{idxv} == -1' and not p) or (t in (f'{idxv} >= 0', f'{idxv} > -1') and p) or (t.startswith(f'0 <= {idxv}') and p) for t, p in fs)
			r.check(unparse(n.slice) == idxv and indexed, 'reader-positional', pl.where, f'an indexed element must address children[{idxv}] (the writer\'s enumerate position) under `{idxv} != -1`: reads `{unparse(n)}` under {fs}', unparse(n))
		filt = [n for fn in plx for n in nodes(fn, ast.comprehension) if n.ifs and any(isinstance(x, ast.Attribute) and x.attr == 'name' for i in n.ifs for x in ast.walk(i))]
		if not filt:
			r.skip('reader-by-tag', pl.where, 'no child filter on the entry name in __pluck')
		for g in filt:
			t = g.ifs[0]
			eq = isinstance(t, ast.Compare) and len(t.ops) == 1 and isinstance(t.ops[0], ast.Eq) and tagv in (unparse(t.left), unparse(t.comparators[0])) and len(g.ifs) == 1
			r.check(eq, 'reader-by-tag', pl.where, f'a plain element must select the children whose name equals the tag: filter is `{unparse(t)}`', unparse(t))
	# separator
	join = dm.func('DSN.join')
	elements = dm.func('DSN.elements')
	jd = _default(join, 'delimiter')
	ed = _default(elements, 'delimiter')
	r.check(jd == ed == '.', 'separator', join.where, f'DSN.join default delimiter {jd!r} / DSN.elements default delimiter {ed!r}')
	r.check(has_call(closure_fi(pm.func('EntryPath.join')), 'DSN.join') and any(c_.args and unparse(c_.args[0]) == 'self.origin' for c_ in calls(closure_fi(pm.func('EntryPath.elements')), 'DSN.elements')), 'path-uses-dsn', pm.func('EntryPath.join').where, 'EntryPath no longer builds/splits paths with DSN.join / DSN.elements')
	# tags
	rt = rep.rule('C10/tags-are-plain', 'no grammar tag or terminal name contains the separator or bracket characters', floor=150)
	gm = GrammarModel()
	rep.consulted(gm.relpath)
	names = set(gm.tags()) | gm.token_names()
	for p in gm.productions().values():
		for prod in p:
			for s in prod:
				names |= set(s.tags)
	for n in sorted(names):
		rt.check(not (set(n) & set('.[]')), f'tag:{n}', (gm.relpath, 1), f'grammar tag `{n}` contains a path metacharacter: a plain element could be read as an indexed one (or split in two)')


def _default(f: FuncInfo, name: str):
	a = f.node.args
	pos = a.posonlyargs + a.args
	defaults = [None] * (len(pos) - len(a.defaults)) + list(a.defaults)
	for p, d in zip(pos, defaults):
		if p.arg == name and d is not None:
			return const_str(d)
	for p, d in zip(a.kwonlyargs, a.kw_defaults):
		if p.arg == name and d is not None:
			return const_str(d)
	return None


def rule_b(rep: Report, idx: SourceIndex) -> None:
	r = rep.rule('C10/match-feature-downward', 'match_feature bodies and the helpers/properties they reach use no upward or sideways navigation and assign no attribute or global', floor=30)
	nm = NodeModel(idx)
	rep.consulted(*nm.files())
	mfs: list[FuncInfo] = []
	seen = set()
	for c in [nm.node_cls] + nm.classes:
		f = c.method('match_feature')
		if f is not None and id(f) not in seen:
			seen.add(id(f))
			mfs.append(f)
	if len(mfs) < 30:
		raise AnalysisError(f'C10-b: only {len(mfs)} match_feature definitions found (expected >= 30)')
	checked: dict[int, list[str]] = {}

	def scan(f: FuncInfo, depth: int, via_names: set[str]) -> list[str]:
		"""problems in f and everything it reaches"""
		if id(f) in checked:
			return checked[id(f)]
		checked[id(f)] = []
		problems: list[str] = []
		if depth > 4:
			return problems
		for n in ast.walk(f.node):
			if isinstance(n, (ast.Global, ast.Nonlocal)):
				problems.append(f'{f.qualname}:{n.lineno}: declares {unparse(n)}')
			if isinstance(n, (ast.Assign, ast.AugAssign, ast.AnnAssign)):
				targets = n.targets if isinstance(n, ast.Assign) else [n.target]
				for t in targets:
					if isinstance(t, (ast.Attribute, ast.Subscript)):
						problems.append(f'{f.qualname}:{n.lineno}: assigns `{unparse(t)}` (match_feature must be pure)')
			if isinstance(n, ast.Attribute) and isinstance(n.ctx, ast.Load):
				if n.attr in UPWARD:
					# `via.full_path` etc. are fine; the member itself is the issue
					problems.append(f'{f.qualname}:{n.lineno}: reads `{unparse(n)}` — `{n.attr}` navigates upward/sideways or depends on query order (instantiating the parent inside match_feature recurses)')
				elif n.attr not in DOWNWARD and not n.attr.startswith('__'):
					# a property of a child node (or a helper): resolve and scan
					targets = resolve_member(f, n)
					for t in targets:
						problems.extend(scan(t, depth + 1, {'self'}))
			if isinstance(n, ast.Call):
				ch = attr_chain(n.func)
				if ch and (ch.startswith('DeclableMatcher.') or ch.endswith('.match_terminal')):
					r2 = idx.resolve_name(f.module, ch)
					if r2 and r2[0] == 'func':
						problems.extend(scan(r2[1], depth + 1, {'via'}))  # type: ignore
		checked[id(f)] = problems
		return problems

	def resolve_member(f: FuncInfo, n: ast.Attribute) -> list[FuncInfo]:
		"""property `attr` read on a node expression: class from `.as_a(T)` / isinstance filter / annotation; only node classes matter"""
		base = n.value
		cls = None
		if isinstance(base, ast.Call) and isinstance(base.func, ast.Attribute) and base.func.attr in ('as_a', 'one_of') and base.args:
			cls = idx.resolve_class(f.module, base.args[0])
		elif isinstance(base, ast.Name):
			# isinstance(name, T) anywhere in the function
			for x in ast.walk(f.node):
				if isinstance(x, ast.Call) and isinstance(x.func, ast.Name) and x.func.id == 'isinstance' and len(x.args) == 2 and isinstance(x.args[0], ast.Name) and x.args[0].id == base.id:
					cls = idx.resolve_class(f.module, x.args[1])
			if cls is None and base.id == 'self' and f.cls is not None:
				cls = f.cls
		elif isinstance(base, ast.Attribute):
			# chained property: resolve the inner one first, then use its return annotation
			inner = resolve_member(f, base)
			for g in inner:
				cls = idx.resolve_class(g.module, g.node.returns) if g.node.returns is not None else None
		if cls is None or not nm.is_node_class(cls):
			return []
		out = []
		# the property as every mapped subclass resolves it
		subs = [k for k in nm.classes if cls in idx.mro(k)] or [cls]
		for k in subs:
			m = idx.lookup(k, n.attr)
			if m is not None and m not in out and m.cls is not None and nm.is_node_class(m.cls):
				out.append(m)
		return out

	for f in mfs:
		problems = scan(f, 0, {'via'})
		key = f'{f.cls.name}.match_feature'
		r.check(not problems, key, f.where, f'{key} is not downward-only: {problems[:3]}', unparse(f.node).split('\n')[1] if '\n' in unparse(f.node) else '')
	r.note(f'{len(checked)} functions/properties reached from {len(mfs)} match_feature definitions')


def rule_c(rep: Report, idx: SourceIndex) -> None:
	r = rep.rule('C10/resolver-path-keyed', 'NodeResolver.resolve caches instances by full path only and takes the first candidate whose match_feature accepts', floor=3)
	m = idx.mod(RESOLVER)
	rep.consulted(RESOLVER)
	f = m.func('NodeResolver.resolve')
	src = unparse(f.node)
	fx = X(f)
	params = [a.arg for a in f.node.args.args]
	keys = [n.slice for n in nodes(fx, ast.Subscript) if unparse(n.value).endswith('__insts')] + [n.left for n in nodes(fx, ast.Compare) if len(n.ops) == 1 and isinstance(n.ops[0], (ast.In, ast.NotIn)) and unparse(n.comparators[0]).endswith('__insts')]
	if not keys:
		r.skip('cache-key', f.where, 'NodeResolver.resolve no longer uses the __insts cache')
	else:
		r.check(all(isinstance(k, ast.Name) and k.id == 'full_path' and k.id in params for k in keys), 'cache-key', f.where, f'the instance cache must be keyed by the full path alone: keys {[unparse(k) for k in keys]}')
	# the cache holds resolved instances only: every store is the candidate class instantiated after its match_feature accepted (a provisional
	# entry would survive a failed resolution and answer later queries for the same path)
	for n in nodes(fx, ast.Assign):
		if not (isinstance(n.targets[0], ast.Subscript) and unparse(n.targets[0].value).endswith('__insts')):
			continue
		v = deref(fx, n.value)
		inst = isinstance(v, ast.Call) and unparse(v.func).endswith('__invoker') and v.args and unparse(v.args[0]) != 'Node'
		cand = unparse(v.args[0]) if inst else ''
		# accepted: inside the branch where match_feature answered true, or after the selected class was tested for None (selection in a helper)
		accepted = any((p_ and 'match_feature' in unparse(a)) or (not p_ and unparse(a) == f'{cand} is None') for a, p_ in atoms(fx, n))
		r.check(bool(accepted and inst), f'cache-write:{unparse(n)[:50]}', (RESOLVER, n.lineno), f'`{unparse(n)}` stores into the instance cache outside the accepted branch (or stores the plain Node dummy): if no class accepts, or a matcher raises, the entry stays and later queries for this path get it instead of the UnresolvedNode error, so the class of a node depends on which query ran first', unparse(n))
	verdict, msg = first_accepting(idx)
	if verdict == 'skip':
		r.skip('first-accepting', f.where, msg)
	else:
		r.check(verdict == 'ok', 'first-accepting', f.where, msg)
	mf = calls(fx, 'match_feature')
	dummies = [deref(fx, c.args[0]) for c in mf if c.args]
	dummies = [d for d in dummies if isinstance(d, ast.Call) and unparse(d.func).endswith('__invoker') and d.args]
	if not dummies:
		r.skip('dummy-is-plain-node', f.where, 'match_feature is no longer called on an __invoker(...) dummy')
	for d in dummies:
		r.check(unparse(d.args[0]) == 'Node' and len(d.args) == 2 and unparse(d.args[1]) == 'full_path', 'dummy-is-plain-node', f.where, f'match_feature must be evaluated on a plain Node(full_path) dummy (a typed dummy would make the outcome depend on a previous resolution): `{unparse(d)}`', unparse(d))


def first_accepting(idx: SourceIndex) -> tuple[str, str]:
	"""NodeResolver.resolve takes the first candidate class, in registration order, whose match_feature accepts"""
	f = idx.mod(RESOLVER).func('NodeResolver.resolve')
	fx = X(f)
	loops = [n for n in nodes(fx, ast.For) if has_call(n, 'match_feature')]
	if not loops:
		return 'skip', 'NodeResolver.resolve no longer loops over candidate classes calling match_feature'
	loop = loops[0]
	it = deref(fx, loop.iter)
	if isinstance(it, ast.Call) and unparse(it.func) in ('reversed', 'sorted', 'set'):
		return 'violate', f'candidate classes must be tried in registration order: iterates `{unparse(it)}`'
	if isinstance(it, ast.Subscript) and isinstance(it.slice, ast.Slice):
		return 'violate', f'candidate classes must all be tried in registration order: iterates `{unparse(it)}`'
	exits = [n for n in ast.walk(loop) if isinstance(n, (ast.Return, ast.Break))]
	if not exits:
		return 'violate', 'the candidate loop no longer stops at the first accepting class (a later class would win)'
	for e in exits:
		fs = facts(fx, e)
		if not any('match_feature' in t and p for t, p in fs):
			return 'violate', f'the candidate loop exits at line {e.lineno} without match_feature having accepted (conditions: {fs})'
	return 'ok', ''


def rule_d(rep: Report, idx: SourceIndex) -> None:
	"""query results are memoised per path: keys of different queries must not collide, and a key must mention every argument of the query"""
	r = rep.rule('C10/memo-keys-distinct-and-complete', 'for every class memoising with Memoize.get(key, factory): keys built in different methods have different constant prefixes, and each key interpolates every parameter of its method (else one query answers for another / for another argument)', floor=8)
	n_sites = 0
	for rel in idx.all_py(('rogw',)):
		if rel.startswith(('rogw/tranp/test/', 'rogw/tranp/compatible/')):
			continue
		m = idx.mod(rel)
		for cq, c in m.classes.items():
			sites = []  # (method, prefix, key node, call)
			for name, defs in c.methods.items():
				for f in defs:
					for n in ast.walk(f.node):
						if isinstance(n, ast.Call) and isinstance(n.func, ast.Attribute) and n.func.attr == 'get' and 'memo' in unparse(n.func.value) and len(n.args) == 2:
							k = n.args[0]
							prefix = None
							if isinstance(k, ast.JoinedStr) and k.values and isinstance(k.values[0], ast.Constant):
								prefix = str(k.values[0].value)
							elif isinstance(k, ast.Constant) and isinstance(k.value, str):
								prefix = k.value + '\0'
							elif isinstance(k, ast.Attribute) and k.attr == '__name__':
								prefix = unparse(k) + '\0'
							elif isinstance(k, ast.JoinedStr) and k.values and isinstance(k.values[0], ast.FormattedValue):
								prefix = '{' + unparse(k.values[0].value) + '}'
							sites.append((f, prefix, k, n))
			if not sites:
				continue
			rep.consulted(rel)
			for i, (f, prefix, k, n) in enumerate(sites):
				n_sites += 1
				key = f'{rel}:{cq}.{f.name}:{unparse(k)[:50]}'
				if prefix is None:
					r.undecided(key, (rel, n.lineno), f'memo key `{unparse(k)}` has no constant prefix')
					continue
				clash = [g.name for g, p2, _, _ in sites if g.name != f.name and p2 is not None and (p2.startswith(prefix) or prefix.startswith(p2))]
				# every parameter of the method (besides self/cls) must be interpolated into the key
				params = [p for p in f.params() if p not in ('self', 'cls')]
				# interpolated as it is, or through an injective view (id(p), str(p), p.origin); a parameter that only occurs inside a derived value
				# (`EntryPath(via).shift(-1)`) is keyed only if the method reads the parameter through that same value
				used = set()
				for fv in ast.walk(k):
					if isinstance(fv, ast.FormattedValue):
						v_ = fv.value
						if isinstance(v_, ast.Call) and isinstance(v_.func, ast.Name) and v_.func.id in ('id', 'str', 'repr') and len(v_.args) == 1:
							v_ = v_.args[0]
						if isinstance(v_, ast.Attribute) and v_.attr == 'origin':
							v_ = v_.value
						if isinstance(v_, ast.Name):
							used.add(v_.id)
				missing = [p for p in params if p not in used and not _keyed_through_view(f, n, k, p)]
				if clash:
					r.violate(key, (rel, n.lineno), f'{cq}.{f.name} memoises under key `{unparse(k)}`, whose prefix {prefix!r} collides with the key of {clash}: whichever query runs first answers the other one too (results depend on query order)', unparse(n)[:120])
				elif missing:
					r.violate(key, (rel, n.lineno), f'{cq}.{f.name} memoises under key `{unparse(k)}`, which does not determine parameter(s) {missing} (not interpolated, or only through a derived value while the method also reads the parameter itself): the first call answers for every later argument value that shares the key', unparse(n)[:120])
				else:
					r.ok(key, (rel, n.lineno))
	rep.extra_coverage['memo_sites'] = n_sites


def _keyed_through_view(f, call: ast.Call, key: ast.AST, p: str) -> bool:
	"""the key does not name parameter p, but interpolates a value V derived from p (`uplayer.origin` with uplayer = EntryPath(via).shift(-1)) and everything
	the method computes from p outside `raise` statements goes through that same V: the key then still determines the result. `.origin` of an EntryPath
	is its full text, an injective view."""
	import copy
	derived: dict[str, ast.AST] = {}
	for st in f.node.body:
		if isinstance(st, ast.Assign) and len(st.targets) == 1 and isinstance(st.targets[0], ast.Name):
			names = {x.id for x in ast.walk(st.value) if isinstance(x, ast.Name)}
			if p in names or names & set(derived):
				derived[st.targets[0].id] = st.value

	def expand(e: ast.AST, depth: int = 4) -> ast.AST:
		class T(ast.NodeTransformer):
			def visit_Name(self, node: ast.Name):
				if node.id in derived and depth > 0:
					return expand(derived[node.id], depth - 1)
				return node
		return T().visit(copy.deepcopy(e))
	views = set()
	for v in ast.walk(key):
		if isinstance(v, ast.FormattedValue):
			t = unparse(expand(v.value))
			views.add(t)
			if t.endswith('.origin'):
				views.add(t[:-len('.origin')])
	views = {t for t in views if p in t}
	if not views:
		return False
	pm_ = parent_map(f.node)
	skip_ids = {id(x) for x in ast.walk(key)} | {id(x) for st in f.node.body if isinstance(st, ast.Assign) and len(st.targets) == 1 and isinstance(st.targets[0], ast.Name) and st.targets[0].id in derived for x in ast.walk(st)}
	for x in ast.walk(f.node):
		if isinstance(x, ast.Raise):
			skip_ids |= {id(y) for y in ast.walk(x)}
	for x in ast.walk(f.node):
		if not (isinstance(x, ast.Name) and isinstance(x.ctx, ast.Load) and (x.id == p or x.id in derived)) or id(x) in skip_ids:
			continue
		cur, ok = x, False
		while cur is not None and isinstance(cur, ast.expr):
			if unparse(expand(cur)) in views:
				ok = True
				break
			cur = pm_.get(id(cur))
		if not ok:
			return False
	return True


def rule_e(rep: Report, idx: SourceIndex) -> None:
	"""children / siblings are defined on the entry tree: one AST level below `via`, resp. the other entries one level below via's AST parent.
	Node-level navigation (parent(), which skips tags without a node class) must not be mixed in, or the queries disagree with the tree."""
	r = rep.rule('C10/structural-queries-on-entry-tree', 'Nodes.children / Nodes.siblings list entries from the path index (group_by of via, resp. of EntryPath(via).shift(-1)) filtered by depth, without going through node-level parent()/ancestor()', floor=4)
	m = idx.mod('rogw/tranp/syntax/node/query.py')
	rep.consulted(m.relpath)
	for name, base_expr, delta in (('children', 'via', 1), ('siblings', 'EntryPath(via).shift(-1)', 0)):
		f = m.func(f'Nodes.{name}')
		src = unparse(f.node)
		nav = [unparse(n)[:50] for n in ast.walk(f.node) if isinstance(n, ast.Call) and isinstance(n.func, ast.Attribute) and isinstance(n.func.value, ast.Name) and n.func.value.id == 'self' and n.func.attr in ('parent', 'ancestor', 'children', 'siblings', 'expand')]
		r.check(not nav, f'{name}:no-node-navigation', f.where, f'Nodes.{name} goes through node-level navigation {nav}: parent() skips entry layers that have no node class (function_def_raw, typedparam, ...), so the result is a different layer than the tree\'s {name}', src[:160])
		gb = [n for n in ast.walk(f.node) if isinstance(n, ast.Call) and isinstance(n.func, ast.Attribute) and n.func.attr == 'group_by']
		ok = False
		for g in gb:
			a0 = unparse(g.args[0]) if g.args else ''
			if name == 'children':
				ok = ok or a0 == 'via'
			else:
				ok = ok or ('uplayer' in a0 or 'shift(-1)' in a0)
		r.check(bool(gb) and ok, f'{name}:entry-index', f.where, f'Nodes.{name} no longer lists entries with __entries.group_by over {"via" if name == "children" else "the AST parent path EntryPath(via).shift(-1)"}', src[:160])


def rule_f(rep: Report, idx: SourceIndex) -> None:
	"""a raw path element keeps its `[index]` suffix whenever the tag repeats among siblings; comparing it with plain tag names only works for the un-indexed form.
	Readers must go through the de-indexing accessors (tag / last_tag / parent_tag / first_tag / de_identify())."""
	from vlib.grammar import GrammarModel
	r = rep.rule('C10/raw-elements-vs-tags', 'a raw element of an entry path (EntryPath.elements[i] without de_identify()) is never compared with plain tag names that can repeat among siblings', floor=1)
	gm = GrammarModel()
	repeatable: set[str] = set()
	for tag, prods in gm.productions().items():
		for p_ in prods:
			seen: dict[str, int] = {}
			for s_ in p_:
				for t in s_.tags:
					seen[t] = seen.get(t, 0) + (2 if s_.mult == 'many' else 1)
			repeatable |= {t for t, k in seen.items() if k > 1}
	files = idx.glob('rogw/tranp/syntax/node/definition/*.py') + ['rogw/tranp/syntax/node/node.py', 'rogw/tranp/syntax/node/query.py', 'rogw/tranp/semantics/finder.py']
	n_raw = 0
	for rel in files:
		m = idx.mod(rel)
		for q, f in m.functions.items():
			if '#' in q:
				continue
			for n in walk_no_nested(f.node):
				if not (isinstance(n, ast.Compare) and len(n.ops) == 1 and isinstance(n.ops[0], (ast.Eq, ast.NotEq, ast.In, ast.NotIn))):
					continue
				sides = [n.left, n.comparators[0]]
				raw = [x for x in sides if isinstance(x, ast.Subscript) and isinstance(x.value, ast.Attribute) and x.value.attr == 'elements' and 'de_identify' not in unparse(x.value) and not isinstance(x.slice, ast.Slice)]
				if not raw:
					continue
				n_raw += 1
				rep.consulted(rel)
				other = sides[1] if raw[0] is sides[0] else sides[0]
				consts = [const_str(other)] if const_str(other) is not None else ([const_str(e) for e in other.elts] if isinstance(other, (ast.List, ast.Tuple)) else [])
				bad = sorted(c for c in consts if c in repeatable)
				r.check(not bad, f'{rel}:{q}:{unparse(n)[:60]}', (rel, n.lineno), f'`{unparse(n)[:100]}` compares a raw path element with {bad}; these tags repeat among siblings and are then written `{bad[0] if bad else ""}[i]`, so the test fails exactly for repeated entries (e.g. the second operator of a chained comparison)', unparse(n)[:120])
	# the de-indexing accessors themselves
	pm = idx.mod(PATH)
	tag_prop = idx.mod('rogw/tranp/syntax/node/node.py').func('Node.tag')
	r.check(any(isinstance(n, ast.Attribute) and n.attr == 'last_tag' for b in closure_fi(tag_prop) for n in ast.walk(b)), 'Node.tag-is-deindexed', tag_prop.where, 'Node.tag no longer returns the de-indexed last tag of the path')
	lt = pm.func('EntryPath.last_tag')
	ltx = closure(lt)
	via_pair = any(isinstance(n, ast.Attribute) and unparse(n) == 'self.last' for n in nodes(ltx)) or has_call(ltx, '__break_tag')
	whole = any(isinstance(n, ast.Return) and n.value is not None and unparse(n.value) == 'self.last' for n in nodes(ltx[0]))
	r.check(via_pair and not whole, 'last_tag-strips-index', lt.where, 'EntryPath.last_tag no longer takes the tag part of self.last (tag, index), i.e. no longer strips the [index] suffix')
	rep.extra_coverage['raw_element_comparisons'] = n_raw


def rule_g(rep: Report, idx: SourceIndex) -> None:
	"""Entry paths are dotted: `a.list` is a string prefix of `a.list_comp`, but `a.list_comp` is not below `a.list`. Every prefix / suffix / replace
	operation in the path index and the node queries therefore compares with a text that ends (prefix) or begins (suffix) with the separator or a
	bracket, so that whole elements are compared (children / siblings / expand then agree with the tree for sibling tags in a prefix relation)."""
	from vlib.anchoring import Taint, find_sites
	r = rep.rule('C10/path-prefix-tests-anchored', 'every startswith / endswith / replace on an entry path in the path index, the path class and the node queries is anchored on the separator (or compares bracket delimiters)', floor=2)
	files = ['rogw/tranp/syntax/ast/cache.py', 'rogw/tranp/syntax/ast/path.py', 'rogw/tranp/syntax/ast/query.py', 'rogw/tranp/syntax/node/query.py']
	for rel in files:
		m = idx.mod(rel)
		rep.consulted(rel)
		for q, f in m.functions.items():
			if '#' in q:
				continue
			t = Taint(f, lambda e: None, lambda f_, p_: None, None)
			for s_ in find_sites(f, t):
				if s_.kind not in ('prefix', 'suffix', 'replace'):
					continue
				key = f'{rel}:{q}:{s_.text[:50]}'
				r.check(s_.anchored, key, (rel, s_.node.lineno), f'{q} tests `{s_.text[:80]}` on an entry path without the separator: the path of a sibling whose tag merely extends another tag (`…list` / `…list_comp`, `…dict` / `…dict_comp`) matches too, so that sibling and its subtree are taken for descendants (dropped from expand, or returned as children of the wrong entry)', s_.text[:100])


def rule_h(rep: Report, idx: SourceIndex) -> None:
	"""`xs[:-k]` drops the last k elements only for k >= 1: for k == 0 it is `xs[:0]`, the EMPTY list. A path computed by cutting "k elements from the end"
	with k obtained from list.index() / find() / a difference of lengths is empty exactly in the boundary case (the requested tag is the entry's own tag),
	so the query answers NodeNotFound('') instead of the entry itself."""
	from vlib.match import may_reach
	r = rep.rule('C10/no-negated-zero-slice', 'no path computation in the node queries slices with a negated bound that can be zero (`xs[:-k]` with k from index()/find()/a length difference): the boundary case must keep the whole sequence', floor=1)
	files = ['rogw/tranp/syntax/ast/cache.py', 'rogw/tranp/syntax/ast/path.py', 'rogw/tranp/syntax/ast/query.py', 'rogw/tranp/syntax/node/query.py', 'rogw/tranp/dsn/dsn.py']
	n_slices = 0
	for rel in files:
		m = idx.mod(rel)
		rep.consulted(rel)
		for q, f in m.functions.items():
			if '#' in q:
				continue
			for sub in ast.walk(f.node):
				if not (isinstance(sub, ast.Subscript) and isinstance(sub.slice, ast.Slice)):
					continue
				n_slices += 1
				for bound in (sub.slice.lower, sub.slice.upper):
					if not (isinstance(bound, ast.UnaryOp) and isinstance(bound.op, ast.USub)):
						continue
					k = bound.operand
					if isinstance(k, ast.Constant):
						continue  # a literal -1 is what it says
					can_be_zero = True
					why = unparse(k)
					if isinstance(k, ast.Name):
						defs_ = may_reach(f.node, k) or []
						vals = [getattr(d_, 'value', None) for d_ in defs_]
						why = '; '.join(unparse(v)[:40] for v in vals if v is not None) or why
						if not vals:
							continue  # a parameter: the callers decide (every caller in the repository passes a positive constant)
						def zeroable(v) -> bool:
							if v is None:
								return False
							if isinstance(v, ast.Call) and isinstance(v.func, ast.Attribute) and v.func.attr in ('index', 'find', 'rfind', 'count'):
								return True
							if isinstance(v, ast.BinOp) and isinstance(v.op, ast.Sub):
								return True
							return False
						can_be_zero = any(zeroable(v) for v in vals)
					elif not (isinstance(k, ast.Call) and isinstance(k.func, ast.Attribute) and k.func.attr in ('index', 'find', 'rfind', 'count')) and not (isinstance(k, ast.BinOp) and isinstance(k.op, ast.Sub)):
						continue
					key = f'{rel}:{q}:{unparse(sub)[:50]}'
					r.check(not can_be_zero, key, (rel, sub.lineno), f'{q} slices with `{unparse(sub)[:70]}`, where `{unparse(k)}` ({why}) can be 0: `xs[:-0]` is empty, not the whole sequence. For the boundary case (the entry itself carries the requested tag) the path is cut to nothing and the query raises NodeNotFound(\'\') instead of returning the entry', unparse(sub)[:100])
	if n_slices == 0:
		r.skip('slices', None, 'no slice found in the path / query modules')
	else:
		r.ok('slices-scanned', None, message=f'{n_slices} slices scanned')


def rule_i(rep: Report, idx: SourceIndex) -> None:
	"""`relativefy(starts)` removes a leading path by SPLITTING the text at `starts` (DSN.relativefy: `origin.split(starts)[1]`): it is exact only when
	`starts` cannot occur a second time in the path. A full path of an ancestor entry qualifies (it begins at the root, which occurs once); a bare tag
	does not — tags recur along a path (`block` inside `block`, `expr` inside `or_expr`), and the text between the first and the second occurrence is
	all that is kept: pluck('block.if_stmt.block.pass_stmt') then returns the entry of `if_stmt`. In the addressing layer the argument must be a full path."""
	r = rep.rule('C10/relative-paths-by-full-path-prefix', 'while DSN.relativefy splits the path text at its argument, every relativefy call of the addressing layer (rogw/tranp/syntax/**) passes a full path (…full_path / …origin / a path parameter), never a bare tag or name', floor=2)
	dm = idx.mod(DSN_PY)
	rf = dm.func('DSN.relativefy')
	if rf is None:
		r.skip('DSN.relativefy', (DSN_PY, 1), 'DSN.relativefy vanished')
		return
	params = [p_ for p_ in rf.params() if p_ not in ('cls', 'self')]
	splits = [c_ for c_ in nodes(rf.node, ast.Call) if isinstance(c_.func, ast.Attribute) and c_.func.attr in ('split', 'partition', 'replace', 'find', 'index') and c_.args and isinstance(c_.args[0], ast.Name) and c_.args[0].id in params[1:2]]
	if not splits:
		r.ok('DSN.relativefy', rf.where, message='DSN.relativefy no longer cuts the path by searching for its argument (an occurrence further down the path cannot matter)')
		return
	r.ok('DSN.relativefy:splits-at-argument', rf.where, message=f'`{unparse(splits[0])}`: exact only for arguments that occur once')
	n_sites = 0

	def outer_params(m, q: str) -> set[str]:
		"""parameters of the function and of the functions it is nested in (`A.f.<locals>.g` sees the parameters of `A.f`)"""
		out: set[str] = set()
		parts = q.split('.<locals>.')
		for i in range(1, len(parts) + 1):
			g = m.functions.get('.<locals>.'.join(parts[:i]))
			if g is not None:
				out |= set(g.params())
		return out
	for rel in idx.glob('rogw/tranp/syntax/**/*.py'):
		m = idx.mod(rel)
		for q, f in m.functions.items():
			if q == 'EntryPath.relativefy':
				continue
			for c_ in [n for n in walk_no_nested(f.node) if isinstance(n, ast.Call)]:
				if not (isinstance(c_.func, ast.Attribute) and c_.func.attr == 'relativefy'):
					continue
				arg = c_.args[1] if unparse(c_.func.value).endswith('DSN') and len(c_.args) >= 2 else (c_.args[0] if c_.args else None)
				if arg is None:
					continue
				n_sites += 1
				txt = unparse(arg)
				key = f'{q}:relativefy({txt[:40]})'
				if txt.endswith(('full_path', '_full_path', '.origin')) or (isinstance(arg, ast.Name) and arg.id in outer_params(m, q) and any(w in arg.id for w in ('via', 'path', 'starts'))):
					r.ok(key, (rel, c_.lineno))
				elif txt.endswith(('.name', '.tag', '.domain_name', '.symbol')) or (isinstance(arg, ast.Constant) and isinstance(arg.value, str) and '.' not in arg.value):
					r.violate(key, (rel, c_.lineno), f'{q} removes the leading `{txt}` — a single tag — with relativefy, which cuts the path TEXT at every occurrence of its argument and keeps what lies between the first two: when the tag occurs again further down (`block.if_stmt.block.pass_stmt`, `expr` in `or_expr`) the relative path is truncated and the lookup returns an ancestor of the addressed entry, or NodeNotFound for a path full_pathfy lists; strip the root by elements (shift(1))', unparse(c_))
				else:
					r.skip(key, (rel, c_.lineno), f'argument `{txt[:60]}` is neither recognisably a full path nor a bare tag')
	if n_sites == 0:
		r.skip('relativefy-sites', None, 'no relativefy call found in rogw/tranp/syntax')


def rule_j(rep: Report, idx: SourceIndex) -> None:
	"""Depth-bounded queries (`EntryCache.group_by(via, depth)`: children / siblings use depth 1, expand looks 3 levels down) recurse with the bound as a
	parameter and stop at `depth == 0` (-1 = unlimited never reaches 0). The recursive call must hand on `depth - 1`: passing the bound unchanged makes
	every positive depth unlimited — the query returns entries below the requested level, so `expand` yields nodes the caller's own level test never
	looked at, and which nodes exist depends on how deep the tree below happens to be."""
	from vlib.linear import linear
	r = rep.rule('C10/depth-bound-decreases', 'every function of the addressing layer that stops at `depth == 0` passes `depth - 1` in its recursive calls', floor=1)
	n_sites = 0
	for rel in idx.glob('rogw/tranp/syntax/**/*.py'):
		m = idx.mod(rel)
		for q, f in m.functions.items():
			params = f.params()
			dp = next((p_ for p_ in params if p_ == 'depth'), None)
			if dp is None:
				continue
			base = any(isinstance(c_, ast.Compare) and unparse(c_.left) == dp and isinstance(c_.ops[0], (ast.Eq, ast.LtE)) and unparse(c_.comparators[0]) == '0' for c_ in ast.walk(f.node))
			if not base:
				continue
			pos = [p_ for p_ in params if p_ not in ('self', 'cls')].index(dp)
			for c_ in [n for n in walk_no_nested(f.node) if isinstance(n, ast.Call)]:
				callee = c_.func.attr if isinstance(c_.func, ast.Attribute) and isinstance(c_.func.value, ast.Name) and c_.func.value.id in ('self', 'cls') else (c_.func.id if isinstance(c_.func, ast.Name) else None)
				if callee is None or callee != f.name and mangle_name(f, callee) != f.name:
					continue
				arg = next((k.value for k in c_.keywords if k.arg == dp), c_.args[pos] if len(c_.args) > pos else None)
				if arg is None:
					continue
				n_sites += 1
				terms, const = linear(arg)
				key = f'{q}:{unparse(c_)[:50]}'
				if terms == {dp: 1}:
					r.check(const == -1, key, (rel, c_.lineno), f'{q} stops at `{dp} == 0` but its recursive call passes `{unparse(arg)}`: the bound never decreases, every positive depth behaves as unlimited — `group_by(via, 1)` (children, siblings) and `group_by(via, 3)` (expand) return the whole sub-tree below `via`', unparse(c_))
				else:
					r.skip(key, (rel, c_.lineno), f'depth argument `{unparse(arg)[:40]}` of the recursive call is not the parameter plus a constant')
	if n_sites == 0:
		r.skip('depth-recursion', None, 'no function with a `depth` parameter, a `depth == 0` stop and a recursive call found in rogw/tranp/syntax')


def mangle_name(f, callee: str) -> str:
	"""`self.__under(...)` inside class C calls C.__under: the FuncInfo name is the plain source name, so only the leading underscores matter"""
	return callee


def rule_k(rep: Report, idx: SourceIndex) -> None:
	"""`pluck(T, p) is e` for every (p, e) of full_pathfy(T), for EVERY tree handed to the finder: the lookup classes are handed the tree with each call
	(ASTFinder) or are built per tree (Nodes, EntryCache), so anything they remember in an attribute that is not keyed by the tree itself answers for
	another tree with the same paths — a second module, the next revision of the same module. The inventory of remembered state is C04's; the entries of
	the classes defined in the files this property is anchored in are obligations here too."""
	from checks import c04
	r = rep.rule('C10/lookup-classes-keep-no-tree-independent-state', 'the classes of syntax/ast/finder.py, path.py, cache.py, syntax/node/query.py, node/resolver.py and ast/resolver.py hold no container / memo outside the reviewed table (shared with C04/instance-state-inventory)', floor=1)
	files = (FINDER, PATH, 'rogw/tranp/syntax/ast/cache.py', 'rogw/tranp/syntax/node/query.py', 'rogw/tranp/syntax/node/resolver.py', 'rogw/tranp/syntax/ast/resolver.py')
	owners = set()
	for rel in files:
		try:
			owners |= {c.name for c in idx.mod(rel).classes.values()}
		except Exception:
			continue
	scratch = Report('C04', rep.tier)
	c04.rule_g(scratch, idx)
	n_ = 0
	for rule in scratch.rules:
		for o in rule.obligations:
			if o.key.split('.')[0] not in owners:
				continue
			n_ += 1
			if o.status == 'violated':
				r.violate(o.key, (o.file, o.line), o.message + ' — a path names an entry only within ONE tree: a lookup remembered under the path (or under the root tag, which every module shares) returns the entry of the tree it was first asked about, so pluck(T2, p) is an entry of T1 and exists(T2, p) answers for T1', o.fragment)
			else:
				r.ok(o.key, (o.file, o.line))
	if n_ == 0:
		r.ok('no-container-attributes', None, message=f'the lookup classes {sorted(owners)} hold no container attribute')
