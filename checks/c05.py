"""C05 — on-disk caches never change the result: decides the clause "with caching disabled no cache file is read or written"
(guard dominance), who may touch the cache directory, and that each cache identity covers what its factory reads."""
from __future__ import annotations

import ast

from vlib.core import AnalysisError, Report
from vlib.flow import parent_map
from vlib.guards import GuardWalker
from vlib.match import X, closure, deref, has_call, inlined_bodies, nodes
from vlib.srcindex import SourceIndex, attr_chain, const_str, unparse, walk_no_nested, mangle
from vlib.typer import Typer

EXPLANATION = (
	'Guard dominance over the closed region {Cached, CachedProxy, CachedDummy, CacheProvider, SymbolDBPersistor}: from every public entry '
	'(CacheProvider.get and its closures, SymbolDBPersistor.stored/store/restore) every call-graph path to a file-system effect (open, os.unlink, os.makedirs, '
	'os.path.exists, glob.glob, json.load, source-loader exists/load on a cache path) must pass the enabled side of a test on CacheSetting.enabled '
	'(directly, by short-circuit, through a boolean helper all of whose returns imply it, or through a class selected by it). '
	'Plus: only the region constructs CachedProxy / reads CacheSetting.basedir; every cache identity covers the settings and files its factory reads. '
	'Decides the "disabled => no cache I/O" clause and two key-coverage necessary conditions; does not decide warm == cold over edit histories.'
)
ASSUMPTIONS = [
	'file-system effects are recognised by callee name inside the region classes; calls leaving the region (Module.in_storage/identity, serializer, SymbolDB) read sources, not the cache directory — backed by the who-may-touch rule',
	'warm==cold over all edit histories, mtime granularity and torn files are not decided (run-time quantities)',
]
TRUSTED_BASE = ['CPython ast', 'vlib/typer.py annotation-driven callee resolution', 'vlib/guards.py syntax-directed guard walk']

FS_EFFECTS = {'open', 'os.unlink', 'os.remove', 'os.makedirs', 'os.mkdir', 'os.rename', 'os.replace', 'os.rmdir', 'os.path.exists', 'os.path.isfile', 'os.path.isdir',
	'os.path.getmtime', 'os.listdir', 'os.scandir', 'glob.glob', 'glob.iglob', 'json.load', 'pickle.load', 'pickle.dump', 'json.dump', 'shutil.rmtree', 'shutil.copy', 'shutil.move'}
REGION = {('rogw/tranp/cache/cache.py', 'Cached'), ('rogw/tranp/cache/cache.py', 'CachedProxy'), ('rogw/tranp/cache/cache.py', 'CachedDummy'),
	('rogw/tranp/cache/cache.py', 'CacheProvider'), ('rogw/tranp/semantics/reflection/persistent.py', 'SymbolDBPersistor')}


def run(rep: Report, tier: str) -> None:
	idx = SourceIndex()
	typer = Typer(idx)
	cache = idx.mod('rogw/tranp/cache/cache.py')
	pers = idx.mod('rogw/tranp/semantics/reflection/persistent.py')
	rep.consulted(cache.relpath, pers.relpath)
	setting_cls = cache.cls('CacheSetting')
	loader_mod = idx.mod('rogw/tranp/file/loader.py')
	loader_ifaces = [c for c in loader_mod.classes.values()]

	def region_class(c) -> bool:
		return c is not None and (c.module.relpath, c.qualname.split('.')[0]) in REGION

	def in_region(f) -> bool:
		q = f.qualname.split('.')[0]
		return (f.module.relpath, q) in REGION

	def is_guard(f, e) -> bool:
		if isinstance(e, ast.Attribute) and e.attr == 'enabled':
			return setting_cls in typer.expr_types(f, e.value)
		return False

	def is_effect(f, call) -> bool:
		name = attr_chain(call.func)
		if name in FS_EFFECTS:
			return True
		if isinstance(call.func, ast.Attribute) and call.func.attr in ('exists', 'load', 'mtime', 'hash'):
			recv = typer.expr_types(f, call.func.value)
			if any(r in loader_ifaces for r in recv):
				return True
		return False

	# ---- rule 1: guard dominance ------------------------------------------------------------------------------
	dom = rep.rule('C05/disabled-no-io', 'every path from a public cache entry to a file-system effect passes the enabled side of a CacheSetting.enabled test', floor=5)
	provider, persistor = cache.cls('CacheProvider'), pers.cls('SymbolDBPersistor')
	entries = [provider.method('get'), persistor.method('stored'), persistor.method('store'), persistor.method('restore')]
	if any(e is None for e in entries):
		raise AnalysisError('C05: a public cache entry vanished (CacheProvider.get / SymbolDBPersistor.stored/store/restore)')
	# any further public method of the persistor is an entry too
	for name, defs in persistor.methods.items():
		if not name.startswith('_') and defs[-1] not in entries:
			entries.append(defs[-1])
	total_effects = 0
	for entry in entries:
		w = GuardWalker(idx, typer, in_region, is_guard, is_effect)
		w.walk_func(entry, False, [])
		seen = set()
		for ef in w.effects:
			key = f'{entry.qualname}->{ef.func.qualname}:{ef.text}'
			if (key, ef.guarded) in seen:
				continue
			seen.add((key, ef.guarded))
			total_effects += 1
			where = (ef.func.module.relpath, ef.call.lineno)
			if ef.guarded:
				dom.ok(key, where, fragment=ef.text)
			else:
				dom.violate(key, where, f'cache I/O `{ef.text}` is reachable with caching disabled: path {" -> ".join(ef.path)} passes no test of CacheSetting.enabled', ef.text)
	# a guard must exist at all in each of the two holders
	holders = rep.rule('C05/guard-present', 'each holder of a CacheSetting reads .enabled somewhere on its entry paths', floor=2)
	for c in (provider, persistor):
		reads = [n for defs in c.methods.values() for f in defs for n in ast.walk(f.node) if isinstance(n, ast.Attribute) and n.attr == 'enabled']
		holders.check(bool(reads), c.qualname, c.where, f'{c.qualname} holds a CacheSetting but never reads .enabled')

	# ---- rule 2: the dummy has no effect at all -------------------------------------------------------------------
	dummy = rep.rule('C05/dummy-pure', 'CachedDummy (selected when disabled) contains no file-system effect in any method it defines or inherits', floor=3)
	dcls = cache.cls('CachedDummy')
	names = set()
	for c in idx.mro(dcls):
		names.update(c.methods)
	for name in sorted(names):
		m = idx.lookup(dcls, name)
		effs = [unparse(n) for n in ast.walk(m.node) if isinstance(n, ast.Call) and is_effect(m, n)]
		# calls to other region methods that do have effects
		for n in ast.walk(m.node):
			if isinstance(n, ast.Call):
				for cal in typer.callees(m, n, widen=False):
					if in_region(cal) and cal.cls is not None and cal.cls not in idx.mro(dcls):
						effs.append(f'calls {cal.qualname}')
		dummy.check(not effs, f'CachedDummy.{name}', m.where, f'CachedDummy.{name} performs {effs}')

	# ---- rule 3: who may touch the cache directory ------------------------------------------------------------------
	owner = rep.rule('C05/cache-owner', 'only the cache region constructs CachedProxy or reads CacheSetting.basedir; CacheSetting is built by the provider only', floor=4)
	proxy_sites, basedir_sites, setting_sites = [], [], []
	for rel in idx.all_py(('rogw',)):
		m = idx.mod(rel)
		for fq, f in m.functions.items():
			for n in walk_no_nested(f.node):
				if isinstance(n, ast.Call):
					c = idx.resolve_class(m, n.func) if attr_chain(n.func) else None
					if c is cache.classes['CachedProxy']:
						proxy_sites.append((f, n))
					if c is setting_cls:
						setting_sites.append((f, n))
				if isinstance(n, ast.Name) and isinstance(n.ctx, ast.Load) and n.id == 'CachedProxy' and m is cache:
					proxy_sites.append((f, n))
				if isinstance(n, ast.Attribute) and n.attr == 'basedir' and isinstance(n.ctx, ast.Load):
					if setting_cls in typer.expr_types(f, n.value):
						basedir_sites.append((f, n))
	if not proxy_sites or not basedir_sites:
		raise AnalysisError('C05: found no CachedProxy construction / basedir read at all (analysis blind)')
	for f, n in proxy_sites:
		owner.check(in_region(f) and f.qualname.startswith('CacheProvider.'), f'CachedProxy@{f.module.relpath}:{f.qualname}', (f.module.relpath, n.lineno),
			f'CachedProxy is selected/constructed outside CacheProvider ({f.qualname}); it would bypass the enabled switch')
	for f, n in basedir_sites:
		owner.check(in_region(f), f'basedir@{f.module.relpath}:{f.qualname}', (f.module.relpath, n.lineno), f'{f.qualname} reads CacheSetting.basedir outside the cache region')
	for f, n in setting_sites:
		owner.check(f.module.relpath == 'rogw/tranp/providers/cache.py', f'CacheSetting()@{f.module.relpath}:{f.qualname}', (f.module.relpath, n.lineno), f'{f.qualname} constructs its own CacheSetting')

	# ---- rule 4: identity covers what the factory reads -----------------------------------------------------------
	ident = rep.rule('C05/identity-coverage', 'for every caches.get(key, identity=...) site: each setting attribute and each file the wrapped factory reads appears in the identity (or the key)', floor=5)
	lp = idx.mod('rogw/tranp/implements/syntax/lark/parser.py')
	rep.consulted(lp.relpath)
	sites = 0
	for fq, f in lp.functions.items():
		for n in walk_no_nested(f.node):
			if isinstance(n, ast.Call) and isinstance(n.func, ast.Attribute) and n.func.attr == 'get' and setting_types(typer, f, n.func.value, cache.classes['CacheProvider']):
				sites += 1
				check_identity(idx, typer, ident, f, n)
	if sites < 2:
		raise AnalysisError(f'C05: only {sites} caches.get(...) sites found in lark/parser.py, expected 2')
	# symbol cache: file name carries module.identity(); identity must hash the module's own file and its imports
	mod = idx.mod('rogw/tranp/module/module.py')
	rep.consulted(mod.relpath)
	gen = persistor.method('_gen_filepath')
	has_identity = gen is not None and any(isinstance(n, ast.Call) and isinstance(n.func, ast.Attribute) and n.func.attr == 'identity' for n in ast.walk(gen.node))
	ident.check(has_identity and 'identity' in unparse(gen.node.body[-1] if gen else None) or has_identity and any('identity' in unparse(s) for s in gen.node.body if isinstance(s, ast.Assign) and 'filename' in unparse(s.targets[0])),
		'symbols:filename-has-identity', gen.where if gen else persistor.where, 'the symbol cache file name no longer carries module.identity()')
	idf = mod.cls('Module').method('identity')
	icl = closure(idf)
	own_file = any(isinstance(n, ast.Attribute) and unparse(n) == 'self.filepath' for n in nodes(icl))
	imports = any(isinstance(n, ast.Attribute) and n.attr == 'imports' for n in nodes(icl))
	ident.check(own_file and imports and has_call(icl, 'hash'), 'symbols:identity-covers-self-and-imports', idf.where,
		'Module.identity no longer hashes the module file itself and its direct imports')
	# the cached symbol table of a module holds types inferred THROUGH its imports (c: `x = b.make().value` with `value` declared in a, imported by b only):
	# its identity must change when any module of the transitive import closure changes, not only a direct import
	gcl = closure(gen) if gen is not None else []
	transitive = any(isinstance(c_, ast.Call) and isinstance(c_.func, ast.Attribute) and c_.func.attr in ('identity', 'dependencies') and unparse(c_.func.value) not in ('module', 'self') for c_ in nodes(icl + gcl, ast.Call)) \
		or any(isinstance(c_, ast.Call) and isinstance(c_.func, ast.Attribute) and c_.func.attr == 'identity' and unparse(c_.func.value) == 'self' for c_ in nodes(icl, ast.Call))
	ident.check(transitive, 'symbols:identity-covers-transitive-imports', idf.where,
		'Module.identity hashes the module file and the files of its DIRECT imports only; the symbol table cached under that identity depends on every module reachable through imports, so after editing a module two hops away the stale table is restored (warm `int z = x;`, cold `std::string z = x;`)')
	restore_uses_same = persistor.method('restore'), persistor.method('store'), persistor.method('stored')
	for m in restore_uses_same:
		calls = [attr_chain(n.func) for n in ast.walk(m.node) if isinstance(n, ast.Call)]
		ident.check('self._gen_filepath' in calls, f'symbols:{m.name}-uses-gen_filepath', m.where, f'SymbolDBPersistor.{m.name} no longer derives the file path from _gen_filepath (store and restore must agree on the identity-bearing name)')
	rule_module_selection(rep, idx)
	rule_eviction_pattern(rep, idx)
	rule_symbols_follow_the_tree(rep, idx)
	rule_content_fingerprint(rep, idx)
	rule_cache_file_complete(rep, idx)
	rule_stamps_fresh(rep, idx)
	rule_key_sources_state(rep, idx)
	rep.extra_coverage['effects_reached'] = total_effects
	rep.extra_coverage['entries'] = [e.qualname for e in entries]


def setting_types(typer, f, expr, provider_cls) -> bool:
	return provider_cls in typer.expr_types(f, expr)


def check_identity(idx, typer, rule, f, call: ast.Call) -> None:
	"""`decorator = self.__caches.get(key, identity=identity, ...)` then `decorator(factory)()`; factory is a nested function of f"""
	ident_expr = next((k.value for k in call.keywords if k.arg == 'identity'), None)
	key_expr = call.args[0] if call.args else None
	where = (f.module.relpath, call.lineno)
	tag = f'{f.qualname}:{unparse(key_expr)}'
	if ident_expr is None:
		rule.violate(f'{tag}:identity', where, 'caches.get(...) without identity: the cache file would never be invalidated')
		return
	fx = X(f)
	xcall = next((n for n in nodes(fx, ast.Call) if (n.lineno, n.col_offset) == (call.lineno, call.col_offset)), call)
	ident_expr = deref(fx, next((k.value for k in xcall.keywords if k.arg == 'identity'), ident_expr))
	key_expr = xcall.args[0] if xcall.args else key_expr
	# the identity may be assembled from a helper that returns a dict literal and from `**` spreads: flattened in evaluation order. A key written twice
	# keeps only its LAST value — the earlier input silently drops out of the cache key
	from vlib.match import inline_simple_calls

	def flat(e: ast.AST, depth: int = 0) -> list[tuple[ast.AST | None, ast.AST]] | None:
		if isinstance(e, ast.Name) and depth < 3:
			d_ = deref(fx, e)
			return flat(d_, depth + 1) if d_ is not e else None
		if isinstance(e, ast.Call) and depth < 3:
			i_ = inline_simple_calls(f, e)
			return flat(i_, depth + 1) if not isinstance(i_, ast.Call) or unparse(i_) != unparse(e) else None
		if isinstance(e, ast.Dict):
			out_: list = []
			for k_, v_ in zip(e.keys, e.values):
				if k_ is None:
					sub = flat(v_, depth + 1)
					if sub is None:
						return None
					out_.extend(sub)
				else:
					out_.append((k_, v_))
			return out_
		return None
	entries_ = flat(ident_expr)
	if entries_ is None:
		rule.skip(f'{tag}:identity', where, f'identity is not a dict literal (nor assembled from one): {unparse(ident_expr)}')
		return
	last_: dict[str, int] = {}
	for i_, (k_, v_) in enumerate(entries_):
		last_[unparse(k_)] = i_
	lost = [(k_, v_) for i_, (k_, v_) in enumerate(entries_) if last_[unparse(k_)] != i_]
	for k_, v_ in lost:
		rule.violate(f'{tag}:identity-key-collision:{unparse(k_)}', where, f'the identity is assembled with the key {unparse(k_)} twice: `{unparse(v_)[:70]}` is overwritten by the later entry and no longer takes part in the cache file name — with the grammar stamp lost this way, unedited modules are served the syntax trees of the OLD grammar after a grammar edit (warm != cold)', unparse(ident_expr)[:120])
	entries_ = [(k_, v_) for i_, (k_, v_) in enumerate(entries_) if last_[unparse(k_)] == i_]
	ident_expr = ast.copy_location(ast.Dict(keys=[k_ for k_, _ in entries_], values=[v_ for _, v_ in entries_]), ident_expr)
	ident_src = [unparse(v) for v in ident_expr.values]
	# a stamp must enter the identity losslessly: str(<loader>.mtime(p)) / <loader>.hash(p); rounding or truncation lets an edit keep the old cache file name
	for k_, v_ in zip(ident_expr.keys, ident_expr.values):
		stamps = [c for c in ast.walk(v_) if isinstance(c, ast.Call) and isinstance(c.func, ast.Attribute) and c.func.attr in ('mtime', 'hash', 'getmtime')]
		for c in stamps:
			plain = v_ is c or (isinstance(v_, ast.Call) and isinstance(v_.func, ast.Name) and v_.func.id in ('str', 'repr') and len(v_.args) == 1 and v_.args[0] is c)
			rule.check(plain, f'{tag}:lossless:{unparse(k_)}', (f.module.relpath, v_.lineno), f'identity entry {unparse(k_)} = `{unparse(v_)}` wraps the file stamp in a lossy conversion: two versions of the file whose stamps differ only below that precision share one cache file, so an edited module is served from the stale cache', unparse(v_))
	key_src = unparse(key_expr)
	# locals that feed the key (e.g. basepath = module_path_to_filepath(module_path))
	derived: dict[str, str] = {}
	for n in walk_no_nested(f.node):
		tgt = n.targets[0] if isinstance(n, ast.Assign) and len(n.targets) == 1 else n.target if isinstance(n, ast.AnnAssign) and n.value is not None else None
		if isinstance(tgt, ast.Name):
			derived[tgt.id] = unparse(n.value)
	def covered(text: str) -> bool:
		return any(text in s for s in ident_src) or text in key_src or any(text in derived.get(k, '') for k in [key_src])
	# the factory: the nested function passed to the decorator
	factories = [g for q, g in f.module.functions.items() if q.startswith(f.qualname + '.<locals>.')]
	if not factories:
		rule.skip(f'{tag}:factory', where, 'no nested factory function found')
		return
	for fac in factories:
		for n in [x for body in inlined_bodies(fac) for x in ast.walk(body)]:
			# setting attributes read by the factory
			if isinstance(n, ast.Attribute) and isinstance(n.value, ast.Attribute) and n.value.attr.endswith('setting') and isinstance(n.ctx, ast.Load):
				t = unparse(n)
				rule.check(covered(t), f'{tag}:{t}', (fac.module.relpath, n.lineno), f'factory {fac.qualname} depends on {t} but the cache identity {ident_src} does not contain it: changing the setting would reuse the stale cache file')
			# files loaded by the factory: X.load(E) needs X.mtime(E) or X.hash(E)
			if isinstance(n, ast.Call) and isinstance(n.func, ast.Attribute) and n.func.attr == 'load' and n.args:
				recv, arg = unparse(n.func.value), unparse(n.args[0])
				ok = any(f'{recv}.mtime({arg})' in s or f'{recv}.hash({arg})' in s for s in ident_src)
				rule.check(ok, f'{tag}:load({arg})', (fac.module.relpath, n.lineno), f'factory {fac.qualname} loads {arg} but the identity has neither {recv}.mtime({arg}) nor .hash({arg})')
			# the module source: source_provider(module_path) must be matched by sources.mtime/hash of a path derived from module_path, and by the key
			if isinstance(n, ast.Call) and isinstance(n.func, ast.Attribute) and 'source_provider' in n.func.attr and n.args:
				arg = unparse(n.args[0])
				dep = [k for k, v in derived.items() if arg in v]
				dep2 = [k for k, v in derived.items() if any(d in v for d in dep)]
				names = set(dep + dep2 + [arg])
				has_stamp = any(('.mtime(' in s or '.hash(' in s) and 'sources' in s and any(nm in s for nm in names) for s in ident_src)
				in_key = any(nm in key_src for nm in names)
				rule.check(has_stamp, f'{tag}:source-stamp', (fac.module.relpath, n.lineno), f'factory {fac.qualname} parses the source of {arg} but the identity {ident_src} has no sources.mtime/hash of a path derived from it: an edited module would be served from the stale tree cache')
				rule.check(in_key, f'{tag}:source-in-key', (fac.module.relpath, n.lineno), f'cache key {key_src} is not derived from {arg}: two modules would share one cache file')
	# the parser the entry factory closes over depends on the grammar: grammar mtime must be in the identity
	params = f.params()
	if 'parser' in params:
		rule.check(any('mtime' in s and 'grammar' in s for s in ident_src), f'{tag}:grammar-stamp', where, f'the tree cache identity {ident_src} does not include the grammar mtime although the factory parses with a grammar-dependent parser')


def rule_module_selection(rep: Report, idx) -> None:
	"""Each symbol cache file is keyed by ONE module's identity and written from SymbolDB.to_json(for_module_path=M). It must hold the symbols of M
	and nothing else: a row of another module stored in M's file is restored later under M's identity, after that other module has been edited, and
	overwrites its freshly built symbols. Dotted module paths are prefixes of one another (`proj.shape` / `proj.shapes`), so M is selected by equality
	with the key's module part, never by a prefix/substring test."""
	from vlib.match import X, nodes
	db = idx.mod('rogw/tranp/semantics/reflection/db.py')
	rep.consulted(db.relpath)
	r = rep.rule('C05/module-selection-exact', 'in SymbolDB every use of a module-path parameter that selects keys is an equality / membership-in-list test or is passed on; never a prefix, suffix or substring test', floor=8)
	cls = db.cls('SymbolDB')
	for name, defs in cls.methods.items():
		f = defs[-1]
		params = [p_ for p_ in f.params() if p_.endswith('module_path')]
		if not params:
			continue
		fx = X(f)
		pm_ = parent_map(fx)
		for n in nodes(fx, ast.Name):
			if n.id not in params or not isinstance(n.ctx, ast.Load):
				continue
			par = pm_.get(id(n))
			key = f'{name}:{n.id}@{unparse(par)[:50]}'
			where = (db.relpath, n.lineno)
			if isinstance(par, ast.Compare):
				ops_ok = all(isinstance(o, (ast.Eq, ast.NotEq, ast.Is, ast.IsNot)) for o in par.ops)
				if ops_ok:
					r.ok(key, where)
					continue
				if len(par.ops) == 1 and isinstance(par.ops[0], (ast.In, ast.NotIn)):
					if par.left is n:
						r.ok(key, where, message='member of a collection')  # collections of module paths: self.__completed, list comprehensions
						continue
					r.violate(key, where, f'SymbolDB.{name} tests `{unparse(par)}`: a substring test with the module path; `proj.shape` is contained in every key of `proj.shapes`, so the rows of that module are selected too and end up in the cache file of `proj.shape`', unparse(par))
					continue
			if isinstance(par, ast.Call) and n in par.args and isinstance(par.func, ast.Attribute) and par.func.attr in ('startswith', 'endswith', 'find', 'index', 'count', 'split', 'partition', 'replace', 'removeprefix'):
				r.violate(key, where, f'SymbolDB.{name} selects with `{unparse(par)}`: dotted module paths are prefixes of one another (`proj.shape` / `proj.shapes`), so the symbols of the longer module are exported into the cache file of the shorter one and restored, stale, over freshly built symbols after the longer module is edited', unparse(par))
				continue
			if isinstance(par, ast.Attribute) and par.attr in ('startswith', 'endswith', 'find', 'index', 'count', 'split', 'partition', 'replace', 'removeprefix'):
				r.violate(key, where, f'SymbolDB.{name} applies `{unparse(par)}` to the module path: a prefix/substring operation cannot tell `proj.shape` from `proj.shapes`', unparse(par))
				continue
			r.ok(key, where, message='passed on / truth test')


def rule_key_sources_state(rep: Report, idx) -> None:
	"""The cache identities are computed from what the loader reports NOW (mtime, content hash). The loader memoises both per instance; that is sound while
	one instance lives for one run. Memo tables created in a class body (or any other process-global container) outlive the application object: after an
	edit, a second run in the same interpreter still sees the old mtime / hash, hits the pre-edit AST and symbol files, and reproduces the old output.
	The inventory of process-global state is C04's; the entries of the loader and cache modules are obligations here as well."""
	from checks import c04
	r = rep.rule('C05/identity-sources-not-process-global', 'the loader and cache classes keep their memo tables per instance: no container created in a class body and written through self, no mutated module-level container, no mutable default (shared with C04/global-state-inventory)', floor=1)
	scratch = Report('C04', rep.tier)
	c04.rule_c(scratch, idx)
	n_ = 0
	for rule in scratch.rules:
		for o in rule.obligations:
			if not any(part in o.key for part in ('rogw/tranp/app/loader.py', 'rogw/tranp/cache/', 'rogw/tranp/semantics/reflection/persistent.py', 'rogw/tranp/implements/syntax/lark/parser.py', 'rogw/tranp/module/module.py')):
				continue
			n_ += 1
			if o.status == 'violated':
				r.violate(o.key, (o.file, o.line), o.message, o.fragment)
			else:
				r.ok(o.key, (o.file, o.line))
	if n_ == 0:
		r.ok('loader-and-cache-clean', None, message='no process-global container in the loader / cache modules')


def rule_eviction_pattern(rep: Report, idx) -> None:
	"""A cache file is named `<key>-<identity hash><ext>`; before a new one is written, the files `<key>-*<ext>` of earlier identities are removed — this is
	what keeps a file written for an earlier (mtime, ...) identity from being found again when that identity recurs with other content. The eviction
	pattern is derived from the new file's own absolute path, so the identity must be cut off at the LAST `-` (the separator gen_cache_path wrote; the
	hash and the extension contain none). A cut at the FIRST `-` takes whatever precedes the first hyphen of the working directory or of the key: the
	pattern matches none of the old files (they survive) and may match unrelated files next to the project (they are deleted)."""
	from vlib.match import FI, closure_fi, nodes
	cache = idx.mod('rogw/tranp/cache/cache.py')
	r = rep.rule('C05/eviction-pattern-strips-own-suffix', 'CachedProxy.find_oldest derives the glob of older cache files from the cache path by cutting at the last `-` (the separator gen_cache_path writes before the identity), never at the first', floor=1)
	cp = cache.cls('CachedProxy')
	f = cp.method('find_oldest') if cp else None
	g = cp.method('gen_cache_path') if cp else None
	if f is None or g is None:
		r.skip('find_oldest', (cache.relpath, 1), 'CachedProxy.find_oldest / gen_cache_path vanished')
		return
	# the separator gen_cache_path writes between key and identity
	seps = set()
	for n in nodes(FI(g), ast.JoinedStr):
		parts = n.values
		for i, p_ in enumerate(parts):
			if isinstance(p_, ast.Constant) and isinstance(p_.value, str) and i > 0 and i + 1 < len(parts) and isinstance(parts[i + 1], ast.FormattedValue) and 'identifier' in unparse(parts[i + 1]):
				seps.add(p_.value)
	if seps != {'-'}:
		r.skip('find_oldest', g.where, f'gen_cache_path no longer writes `<key>-<identifier>` in one f-string (separators found: {sorted(seps)})')
		return
	path_p = [p_ for p_ in f.params() if p_ not in ('self', 'cls')][0]
	verdict = None
	for body in closure_fi(f):
		for c_ in nodes(body, ast.Call):
			if not (isinstance(c_.func, ast.Attribute) and c_.args and const_str(c_.args[0]) == '-'):
				continue
			recv = unparse(c_.func.value)
			if path_p not in recv and recv not in ('basepath',):
				continue
			a = c_.func.attr
			if a in ('rpartition', 'rsplit', 'rfind', 'rindex'):
				verdict = verdict or ('ok', c_)
			elif a in ('partition', 'find', 'index'):
				verdict = ('bad', c_)
			elif a == 'split':
				# split('-')[:-1] re-joined keeps everything up to the last separator; split('-')[0] / split('-', 1) cut at the first
				maxsplit = len(c_.args) > 1 or any(k.arg == 'maxsplit' for k in c_.keywords)
				uses = [x for x in nodes(body, ast.Subscript) if x.value is c_ or (isinstance(x.value, ast.Name) and any(isinstance(s_, ast.Assign) and s_.value is c_ and isinstance(s_.targets[0], ast.Name) and s_.targets[0].id == x.value.id for s_ in nodes(body, ast.Assign)))]
				drop_last = any(isinstance(x.slice, ast.Slice) and x.slice.lower is None and unparse(x.slice.upper) == '-1' for x in uses)
				first = any(isinstance(x.slice, ast.Constant) and x.slice.value == 0 for x in uses)
				if maxsplit or first:
					verdict = ('bad', c_)
				elif drop_last:
					verdict = verdict or ('ok', c_)
	if verdict is None:
		# no recognised spelling: evaluate the pattern for a path with hyphens in the directory and in the key
		from vlib import dsneval
		glob_call = next((c_ for c_ in ast.walk(f.node) if isinstance(c_, ast.Call) and unparse(c_.func) in ('glob.glob', 'glob.iglob') and c_.args), None)
		env = {path_p: '/w-x/.c/p-k/mod-a1b2c3.json'}
		helpers = [h_.node for c_ in ast.walk(f.node) if isinstance(c_, ast.Call) and isinstance(c_.func, ast.Attribute) and isinstance(c_.func.value, ast.Name) and c_.func.value.id == 'self' for h_ in [cp.method(c_.func.attr)] if h_ is not None and h_ is not f]
		for c_ in [x for b in [f.node] + helpers for x in ast.walk(b)]:
			if isinstance(c_, ast.Call) and unparse(c_.func).endswith('.get') and c_.args and const_str(c_.args[0]) == 'format':
				env[unparse(c_)] = 'json'
		got = dsneval.evaluate(f.node, glob_call.args[0], env, cp) if glob_call is not None else dsneval.UNKNOWN
		if not isinstance(got, str):
			r.skip('find_oldest', f.where, 'find_oldest no longer cuts the cache path at `-` in a form this check reads')
		else:
			r.check(got == '/w-x/.c/p-k/mod-*.json', 'find_oldest', f.where, f'for the cache file /w-x/.c/p-k/mod-a1b2c3.json find_oldest looks for `{got}`: the identity must be cut off at the LAST `-` (expected /w-x/.c/p-k/mod-*.json); older files of the module survive and unrelated files may be deleted', got)
	elif verdict[0] == 'bad':
		r.violate('find_oldest', (cache.relpath, verdict[1].lineno), f'find_oldest cuts the cache path at its FIRST `-` (`{unparse(verdict[1])}`): the path is absolute, so a hyphen in the working directory (`/home/me/my-project/.cache/...`) or in the cache key makes the eviction pattern `/home/me/my-*<ext>`; the files of earlier identities are never removed (when an mtime recurs with other content the stale tree is loaded: warm output != cold output) and unrelated files matching the pattern are unlinked', unparse(verdict[1]))
	else:
		r.ok('find_oldest', (cache.relpath, verdict[1].lineno))


def rule_symbols_follow_the_tree(rep: Report, idx) -> None:
	"""The symbol table cached for a module was inferred from ONE parse of it. Its identity (Module.identity) covers the source files only; what else
	decides the parse — the grammar file — is part of the syntax-tree cache's identity alone. The two stay together because the tree cache, when it writes
	a module's new tree, removes `<module>-*.json`, and the symbol file is named `<module>-symbols-<identity>.json`: a re-parse takes the symbol file with
	it. So either the symbol file's name is matched by that eviction pattern, or Module.identity itself must cover the grammar; otherwise a grammar edit
	leaves a symbol table of the old parse next to the new tree (warm `int y`, cold `bool y`). Both names are evaluated from the code on representatives."""
	import fnmatch
	from vlib import dsneval
	r = rep.rule('C05/symbol-cache-leaves-with-the-tree', 'the file name SymbolDBPersistor._gen_filepath builds for a module is matched by the pattern CachedProxy.find_oldest removes when the module\'s tree is cached anew (or Module.identity covers the grammar)', floor=1)
	cache = idx.mod('rogw/tranp/cache/cache.py')
	pers = idx.mod('rogw/tranp/semantics/reflection/persistent.py')
	parser = idx.mod('rogw/tranp/implements/syntax/lark/parser.py')
	cp = cache.cls('CachedProxy')
	g = cp.method('gen_cache_path') if cp else None
	f = cp.method('find_oldest') if cp else None
	pc = pers.cls('SymbolDBPersistor')
	h = pc.method('_gen_filepath') if pc else None
	if g is None or f is None or h is None:
		r.skip('names', (cache.relpath, 1), 'CachedProxy.gen_cache_path / find_oldest or SymbolDBPersistor._gen_filepath vanished')
		return
	KEY, H1, H2 = 'pkg/mod', 'a1b2c3', 'd4e5f6'

	def env_of(fn, extra: dict) -> dict:
		env = dict(extra)
		env.update({'os.getcwd()': '/w', 'self.setting.basedir': '.c', 'self._basedir': '.c'})
		for p_ in fn.params():
			if p_ not in ('self', 'cls') and p_ not in env:
				env[p_] = f'<{p_}>'  # an opaque argument handed on to helpers (what is read from it is given by source text below)
		helpers = [g.node for c_ in ast.walk(fn.node) if isinstance(c_, ast.Call) and isinstance(c_.func, ast.Attribute) and isinstance(c_.func.value, ast.Name) and c_.func.value.id in ('self', 'cls') and fn.cls is not None for g in [fn.cls.method(c_.func.attr)] if g is not None and g is not fn]
		for c_ in [x for b in [fn.node] + helpers for x in ast.walk(b)]:
			if isinstance(c_, ast.Call):
				src = unparse(c_.func)
				if src.endswith('identifier'):
					env[unparse(c_)] = H1
				elif src.endswith('.get') and c_.args and const_str(c_.args[0]) == 'format':
					env[unparse(c_)] = 'json'
				elif src.endswith('module_path_to_filepath'):
					env[unparse(c_)] = KEY
				elif src.endswith('.identity') and not c_.args:
					env[unparse(c_)] = H2
		return env

	def file_part(fn):
		"""the returned path expression (evaluated below with the working directory '/w' and the cache directory '.c')"""
		return next((n.value for n in ast.walk(fn.node) if isinstance(n, ast.Return) and n.value is not None), None)
	key_p = [p_ for p_ in g.params() if p_ not in ('self', 'cls')][0]
	tree_file = dsneval.evaluate(g.node, file_part(g), env_of(g, {key_p: KEY}), cp)
	path_p = [p_ for p_ in f.params() if p_ not in ('self', 'cls')][0]
	glob_call = next((c_ for c_ in ast.walk(f.node) if isinstance(c_, ast.Call) and unparse(c_.func) in ('glob.glob', 'glob.iglob') and c_.args), None)
	pattern = dsneval.evaluate(f.node, glob_call.args[0], env_of(f, {path_p: tree_file}), cp) if glob_call is not None and isinstance(tree_file, str) else dsneval.UNKNOWN
	sym_file = dsneval.evaluate(h.node, file_part(h), env_of(h, {}), pc)
	# the key of the tree cache of a module is the same path function applied to the module path
	tree_keys = [c_.args[0] for fn in parser.functions.values() for c_ in ast.walk(fn.node) if isinstance(c_, ast.Call) and isinstance(c_.func, ast.Attribute) and c_.func.attr == 'get' and any(k.arg == 'format' and const_str(k.value) == 'json' for k in c_.keywords) and c_.args]
	same_key = False
	for fn in parser.functions.values():
		for k_ in tree_keys:
			if any(x is k_ for x in ast.walk(fn.node)):
				if isinstance(k_, ast.Name) and k_.id in fn.params():
					# the key is a parameter of a private helper: read the argument at its call sites
					pos = [p_ for p_ in fn.params() if p_ not in ('self', 'cls')].index(k_.id)
					for caller in parser.functions.values():
						for c2 in ast.walk(caller.node):
							if isinstance(c2, ast.Call) and isinstance(c2.func, ast.Attribute) and c2.func.attr == fn.name and isinstance(c2.func.value, ast.Name) and c2.func.value.id == 'self':
								arg = c2.args[pos] if pos < len(c2.args) else next((kw.value for kw in c2.keywords if kw.arg == k_.id), None)
								if arg is not None and dsneval.evaluate(caller.node, arg, {k2: v2 for k2, v2 in env_of(caller, {}).items() if not k2.isidentifier()}) == KEY:
									same_key = True
					continue
				v = dsneval.evaluate(fn.node, k_, {k2: v2 for k2, v2 in env_of(fn, {}).items() if not k2.isidentifier()})
				same_key = same_key or v == KEY
	if not (isinstance(tree_file, str) and isinstance(pattern, str) and isinstance(sym_file, str) and same_key):
		r.skip('names', h.where, f'the file names could not be evaluated (tree file {tree_file!r}, eviction pattern {pattern!r}, symbol file {sym_file!r}, tree cache keyed by the module file path: {same_key})')
		return
	mod = idx.mod('rogw/tranp/module/module.py')
	idf = mod.cls('Module').method('identity') if mod.cls('Module') else None
	covers_grammar = idf is not None and any('grammar' in unparse(x).lower() for x in ast.walk(idf.node) if isinstance(x, (ast.Attribute, ast.Name, ast.Constant)))
	hit = fnmatch.fnmatchcase(sym_file, pattern)
	if hit or covers_grammar:
		r.ok('names', h.where, message=f'symbol file `{sym_file}` is matched by `{pattern}`' if hit else 'Module.identity covers the grammar')
	else:
		r.violate('names', h.where, f'for module {KEY} the symbol table is stored as `{sym_file}`, the tree as `{tree_file}`, and a new tree removes `{pattern}`: the symbol file survives a re-parse, and its identity (Module.identity: source hashes only) does not change when the grammar does — after an edit of the grammar file the types of the old parse are restored onto the new tree and the warm output differs from a cold run', sym_file)


DIGESTS = {'md5', 'sha1', 'sha224', 'sha256', 'sha384', 'sha512', 'sha3_224', 'sha3_256', 'sha3_384', 'sha3_512', 'blake2b', 'blake2s'}
CHECKSUMS = {'zlib.crc32', 'zlib.adler32', 'binascii.crc32', 'binascii.crc_hqx', 'hash', 'len', 'sum'}


def rule_content_fingerprint(rep: Report, idx) -> None:
	"""Module.identity() keys the symbol cache by FileLoader.hash() of the module and of what it imports; the value is whatever FileLoader.load stored for the
	file. For `edited source => other key` the stored value must be a collision-resistant digest of ALL bytes read: a 32-bit checksum (crc32 / adler32),
	the built-in hash(), the length, or a digest of a slice gives two different sources one key — found by a one-second search, not by bad luck — and the
	stale symbol table of the importer is restored."""
	import copy
	from vlib.match import inline_simple_calls
	r = rep.rule('C05/content-fingerprint-is-a-digest-of-all-bytes', 'the value FileLoader.hash returns is stored by load as hashlib.<md5|sha*|blake2*>(<everything f.read() returned>).hexdigest()', floor=1)
	m = idx.mod('rogw/tranp/app/loader.py')
	cls = m.cls('FileLoader')
	load, hsh = (cls.method('load'), cls.method('hash')) if cls else (None, None)
	if load is None or hsh is None:
		r.skip('FileLoader', (m.relpath, 1), 'FileLoader.load / hash vanished')
		return
	# the store hash() returns from
	rets = [n.value for n in walk_no_nested(hsh.node) if isinstance(n, ast.Return) and n.value is not None]
	stores = {unparse(x.value) for x in rets if isinstance(x, ast.Subscript)}
	if len(stores) != 1 or not all(isinstance(x, ast.Subscript) for x in rets):
		r.skip('hash', hsh.where, 'FileLoader.hash no longer returns one entry of a memo table')
		return
	store = stores.pop()
	writes = [(f, n) for f in cls.methods_flat() for n in walk_no_nested(f.node) if isinstance(n, ast.Assign) and any(isinstance(t, ast.Subscript) and unparse(t.value) == store for t in n.targets)] if hasattr(cls, 'methods_flat') else \
		[(f, n) for fs in cls.methods.values() for f in fs for n in walk_no_nested(f.node) if isinstance(n, ast.Assign) and any(isinstance(t, ast.Subscript) and unparse(t.value) == store for t in n.targets)]
	if not writes:
		r.skip('hash', hsh.where, f'no write of {store}[...] found in FileLoader')
		return
	for f, n in writes:
		key = f'{f.name}:{store}'
		v = inline_simple_calls(f, n.value)
		# names bound once in the function stand for their value (content_bytes = f.read())
		def resolve(e: ast.AST, depth: int = 0) -> ast.AST:
			if isinstance(e, ast.Name) and depth < 4:
				defs = [a for a in ast.walk(f.node) if isinstance(a, (ast.Assign, ast.AnnAssign)) and a.value is not None and any(isinstance(t, ast.Name) and t.id == e.id for t in (a.targets if isinstance(a, ast.Assign) else [a.target]))]
				if len(defs) == 1:
					return resolve(inline_simple_calls(f, defs[0].value), depth + 1)
			return e
		v = resolve(v)
		calls_ = [c_ for c_ in ast.walk(v) if isinstance(c_, ast.Call)]
		weak = [attr_chain(c_.func) for c_ in calls_ if attr_chain(c_.func) in CHECKSUMS]
		dig = [c_ for c_ in calls_ if isinstance(c_.func, ast.Attribute) and c_.func.attr in DIGESTS and attr_chain(c_.func.value) == 'hashlib'] + \
			[c_ for c_ in calls_ if attr_chain(c_.func) == 'hashlib.new']
		if weak and not dig:
			r.violate(key, (m.relpath, n.lineno), f'the content fingerprint is `{unparse(v)[:80]}` — {weak[0]} is a checksum of at most 64 bits (crc32: 32), not a collision-resistant digest: two revisions of an imported module with equal checksum (an edit in two places; found by a one-second search) give the importer the same Module.identity(), so its stale `<module>-symbols-<id>.json` is restored and the old types are emitted (warm != cold)', unparse(n)[:120])
			continue
		if len(dig) != 1 or not dig[0].args:
			r.skip(key, (m.relpath, n.lineno), f'fingerprint `{unparse(v)[:80]}` is neither one hashlib digest nor a known checksum')
			continue
		arg = resolve(dig[0].args[-1] if attr_chain(dig[0].func) == 'hashlib.new' else dig[0].args[0])
		if isinstance(arg, ast.Call) and isinstance(arg.func, ast.Attribute) and arg.func.attr == 'encode':
			arg = resolve(arg.func.value)
		whole = isinstance(arg, ast.Call) and isinstance(arg.func, ast.Attribute) and arg.func.attr == 'read' and not arg.args and not arg.keywords
		partial = isinstance(arg, ast.Subscript) or (isinstance(arg, ast.Call) and isinstance(arg.func, ast.Attribute) and arg.func.attr in ('read', 'readline') and (arg.args or arg.func.attr == 'readline'))
		hexed = any(isinstance(c_.func, ast.Attribute) and c_.func.attr in ('hexdigest', 'digest') and c_.func.value is dig[0] for c_ in calls_)
		truncated = any(isinstance(s_, ast.Subscript) and isinstance(s_.slice, ast.Slice) and any(c_ is dig[0] for c_ in ast.walk(s_.value)) for s_ in ast.walk(v))
		if partial or truncated:
			r.violate(key, (m.relpath, n.lineno), f'the content fingerprint `{unparse(v)[:80]}` covers only part of the file / of the digest: an edit outside that part leaves Module.identity() of every importer unchanged, and the stale symbol cache is restored', unparse(n)[:120])
		elif whole and hexed:
			r.ok(key, (m.relpath, n.lineno))
		else:
			r.skip(key, (m.relpath, n.lineno), f'digest argument `{unparse(arg)[:60]}` is not recognisably everything `<file>.read()` returned')


def rule_cache_file_complete(rep: Report, idx, rule_id: str = 'C05/cache-file-exists-only-when-complete') -> None:
	"""`get` trusts a cache file as soon as it EXISTS (cache_exists -> load_cache, in front of the parser's own error conversion). So the file must not
	come into existence before its content is there: (1) the value is produced (the factory / instantiate call) before the file is opened for writing —
	a factory that raises (an unparsable module!) under an open `wb` file leaves a zero-byte file, and every later run answers with the loader's
	decode error instead of Errors.Syntax; (2) a serialisation that fails half-way removes what it wrote (a handler that unlinks the path and re-raises,
	or a write to a temporary name followed by a rename)."""
	cache = idx.mod('rogw/tranp/cache/cache.py')
	r = rep.rule(rule_id, 'in CachedProxy every open-for-write of the cache path is protected by a handler that removes the file and re-raises (or goes through a temporary name + rename): whatever fails while the file is open — the serialisation, or a factory called there — leaves no file behind', floor=1)
	cp = cache.cls('CachedProxy')
	if cp is None:
		r.skip('CachedProxy', (cache.relpath, 1), 'CachedProxy vanished')
		return
	from vlib.flow import parent_map
	n_open = 0
	for defs_ in cp.methods.values():
		for f in defs_:
			pm_ = parent_map(f.node)
			for w in walk_no_nested(f.node):
				if not isinstance(w, ast.With):
					continue
				opens = [it.context_expr for it in w.items if isinstance(it.context_expr, ast.Call) and unparse(it.context_expr.func) == 'open']
				writes = [o for o in opens if any(isinstance(a, ast.Constant) and isinstance(a.value, str) and ('w' in a.value or 'a' in a.value or 'x' in a.value) for a in list(o.args[1:]) + [kw.value for kw in o.keywords if kw.arg == 'mode'])]
				if not writes:
					continue
				n_open += 1
				key = f'{f.name}:{unparse(writes[0])[:40]}'
				# (1) no factory call inside the with body
				inside = [c_ for s_ in w.body for c_ in ast.walk(s_) if isinstance(c_, ast.Call) and isinstance(c_.func, ast.Attribute) and c_.func.attr in ('instantiate', '_factory') and isinstance(c_.func.value, ast.Name) and c_.func.value.id == 'self']
				# (2) partial file removed on failure, or temp + rename
				target = writes[0].args[0] if writes[0].args else None
				protected = False
				cur = w
				while id(cur) in pm_:
					par = pm_[id(cur)]
					if isinstance(par, ast.Try) and any(cur is s_ for s_ in par.body):
						for h in par.handlers:
							broad = h.type is None or unparse(h.type) in ('BaseException', 'Exception')
							removes = any(isinstance(c_, ast.Call) and unparse(c_.func) in ('os.unlink', 'os.remove') and c_.args and target is not None and unparse(c_.args[0]) == unparse(target) for c_ in ast.walk(h))
							reraises = any(isinstance(x, ast.Raise) for x in ast.walk(h))
							if broad and removes and reraises:
								protected = True
						if par.finalbody and any(isinstance(c_, ast.Call) and unparse(c_.func) in ('os.unlink', 'os.remove') for s_ in par.finalbody for c_ in ast.walk(s_)):
							protected = True
					cur = par
				renamed = any(isinstance(c_, ast.Call) and unparse(c_.func) in ('os.replace', 'os.rename') and c_.args and target is not None and unparse(c_.args[0]) == unparse(target) for c_ in walk_no_nested(f.node))
				r.check(protected or renamed, key + ':partial-file-removed', (cache.relpath, w.lineno), (f'`{unparse(inside[0])[:50]}` runs while the cache file is already open for writing, and nothing removes the file when it raises — the parser on an unparsable module leaves an empty cache file, `get` finds it on the next run and answers with the decode error of the loader (Errors.Fatal / a raw JSONDecodeError through the parser) instead of Errors.Syntax; ' if inside else '') + f'`{unparse(writes[0])[:60]}` creates the cache file before its content is written and nothing removes it when the serialisation fails (a RecursionError while dumping a deeply nested tree): the zero-byte file is found by every later run, which fails with a decode error instead of repeating the original outcome — the cache has changed the result', unparse(w)[:120])
	if n_open == 0:
		r.skip('CachedProxy', cp.where, 'CachedProxy no longer opens a file for writing')


def rule_stamps_fresh(rep: Report, idx) -> None:
	"""The syntax-tree cache is keyed by the modification time of the source (`sources.mtime(path)` in the identity). The stamp must be the file's CURRENT
	one whenever the identity is built: a stamp remembered by the loader for the life of the process makes the identity of an edited file equal to the
	identity of its first version, and CacheProvider hands out the tree of the first parse — a module edited while the process runs (the modules an
	interactive session imports) keeps its old output after unload + load, and text that became unparsable is not reported."""
	r = rep.rule('C05/identity-stamps-are-read-fresh', 'FileLoader.mtime returns os.path.getmtime(<resolved path>) on every call: no return hands out a value remembered in an attribute of the loader', floor=1)
	m = idx.mod('rogw/tranp/app/loader.py')
	cls = m.cls('FileLoader')
	f = cls.method('mtime') if cls else None
	if f is None:
		r.skip('FileLoader.mtime', (m.relpath, 1), 'FileLoader.mtime vanished')
		return
	rets = [n for n in walk_no_nested(f.node) if isinstance(n, ast.Return) and n.value is not None]
	if not rets:
		r.skip('FileLoader.mtime', f.where, 'FileLoader.mtime has no return')
	for ret in rets:
		v = deref(f.node, ret.value) if isinstance(ret.value, ast.Name) else ret.value
		remembered = [x for x in ast.walk(v) if isinstance(x, ast.Attribute) and isinstance(x.value, ast.Name) and x.value.id in ('self', 'cls')]
		fresh = any(isinstance(x, ast.Call) and unparse(x.func) in ('os.path.getmtime', 'os.stat') for x in ast.walk(v))
		# a local assigned from getmtime on this path and ALSO stored in the memo is fine only if it is what gets returned on every path: a return of the
		# memo entry itself is the stale one
		r.check(fresh and not remembered, f'return:{unparse(ret.value)[:40]}', (m.relpath, ret.lineno), f'FileLoader.mtime returns `{unparse(ret.value)[:60]}`' + (', a value remembered in the loader' if remembered else ', which is not read from the file system here') + ': the modification time of a file is then fixed at its first use for the life of the process; the syntax-tree cache is keyed by it, so after an edit + unload + load the module is served from the tree of the first parse (old output; no Errors.Syntax for text that became unparsable), while a run with the cache disabled parses the new text', unparse(ret)[:100])
