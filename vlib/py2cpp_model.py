"""Static model of Py2Cpp: `on_*` handlers, helper call graph inside the class, and the template names each
`self.render(node, <expr>, vars=...)` / `self.view.render(<expr>, ...)` call site can resolve to."""
from __future__ import annotations

import ast
import itertools

from vlib.core import AnalysisError
from vlib.flow import parent_map
from vlib.srcindex import ClassInfo, FuncInfo, SourceIndex, attr_chain, const_str, unparse, walk_no_nested

PY2CPP = 'rogw/tranp/implements/cpp/transpiler/py2cpp.py'


class RenderSite:
	def __init__(self, func: FuncInfo, call: ast.Call, tmpl: ast.AST, vars_expr: ast.AST | None) -> None:
		self.func = func
		self.call = call
		self.tmpl = tmpl
		self.vars_expr = vars_expr
		self.names: set[str] = set()
		self.unresolved: str | None = None

	@property
	def where(self) -> tuple[str, int]:
		return (self.func.module.relpath, self.call.lineno)


class Py2CppModel:
	def __init__(self, idx: SourceIndex) -> None:
		self.idx = idx
		self.mod = idx.mod(PY2CPP)
		self.cls = self.mod.cls('Py2Cpp')
		self.handlers: dict[str, FuncInfo] = {n: d[-1] for n, d in self.cls.methods.items() if n.startswith('on_')}
		self.methods: dict[str, FuncInfo] = {n: d[-1] for n, d in self.cls.methods.items()}
		self._callers: dict[str, set[str]] | None = None

	# -- which handlers reach a helper ---------------------------------------------------------------------------

	def self_calls(self, f: FuncInfo) -> set[str]:
		out = set()
		for n in ast.walk(f.node):
			if isinstance(n, ast.Call) and isinstance(n.func, ast.Attribute) and isinstance(n.func.value, ast.Name) and n.func.value.id == 'self' and n.func.attr in self.methods:
				out.add(n.func.attr)
		return out

	def classifications_reaching(self, name: str) -> set[str]:
		"""classifications of the on_* handlers from which method `name` is reachable through self.<m>() calls"""
		if self._callers is None:
			self._callers = {}
			for m, f in self.methods.items():
				for callee in self.self_calls(f):
					self._callers.setdefault(callee, set()).add(m)
		out: set[str] = set()
		seen, work = set(), [name]
		while work:
			cur = work.pop()
			if cur in seen:
				continue
			seen.add(cur)
			if cur.startswith('on_'):
				out.add(cur[3:])
				continue
			work.extend(self._callers.get(cur, ()))
		return out

	# -- render sites ------------------------------------------------------------------------------------------------

	def render_sites(self) -> list[RenderSite]:
		if getattr(self, '_render_sites', None) is not None:
			return self._render_sites
		sites = []
		for name, f in self.methods.items():
			if name == 'render':
				continue
			for n in ast.walk(f.node):
				if isinstance(n, ast.Call) and isinstance(n.func, ast.Attribute) and n.func.attr == 'render':
					recv = unparse(n.func.value)
					if recv == 'self' and len(n.args) >= 2:
						tmpl = n.args[1]
					elif recv == 'self.view' and len(n.args) >= 1:
						tmpl = n.args[0]
					else:
						continue
					vars_expr = next((k.value for k in n.keywords if k.arg == 'vars'), None)
					s = RenderSite(f, n, tmpl, vars_expr)
					self._resolve(s)
					sites.append(s)
		self._render_sites = sites
		return sites

	def _enum_members(self, dotted: str) -> set[str] | None:
		"""members of an Enum class nested in a class of py2cpp.py, e.g. FuncCallSpec.Tags"""
		c = self.mod.classes.get(dotted)
		if c is None:
			return None
		return {k for k in c.class_attrs}

	def _const_list(self, expr: ast.AST, owner: ClassInfo | None) -> list[str] | None:
		"""evaluate a list literal of `X.y.__name__` / string constants / `*other_list`"""
		if not isinstance(expr, (ast.List, ast.Tuple)):
			return None
		out: list[str] = []
		for e in expr.elts:
			if isinstance(e, ast.Starred):
				if isinstance(e.value, ast.Name) and owner is not None and e.value.id in owner.class_attrs:
					sub = self._const_list(owner.class_attrs[e.value.id], owner)
					if sub is None:
						return None
					out.extend(sub)
					continue
				return None
			v = self._const_value(e)
			if v is None:
				return None
			out.append(v)
		return out

	def _const_value(self, e: ast.AST) -> str | None:
		if const_str(e) is not None:
			return const_str(e)
		if isinstance(e, ast.Attribute) and e.attr == '__name__':
			ch = attr_chain(e.value)
			if ch:
				return ch.split('.')[-1]
		if isinstance(e, ast.Attribute):
			# PythonClassOperations.copy_constructor -> class attribute constant
			ch = attr_chain(e)
			if ch:
				r = self.idx.resolve_name(self.mod, ch.rsplit('.', 1)[0])
				if r and r[0] == 'class' and ch.rsplit('.', 1)[1] in r[1].class_attrs:  # type: ignore
					return self._const_value(r[1].class_attrs[ch.rsplit('.', 1)[1]])  # type: ignore
		return None

	def _branch_facts(self, f: FuncInfo, node: ast.AST) -> dict[str, object]:
		"""facts known at node (enclosing branches, earlier exiting guards, conditional expressions): for a local compared with enum members
		or constants, the set of values it can still hold: {'spec': {members}, 'spec#enum': dotted enum, 'context_name': {values}}"""
		from vlib.match import atoms
		pos: dict[str, set[str]] = {}
		neg: dict[str, set[str]] = {}
		facts: dict[str, object] = {}

		def value_of(rhs: ast.AST, var: str) -> str | None:
			ch = attr_chain(rhs)
			if ch and '.Tags.' in ch:
				facts.setdefault(var + '#enum', ch.rsplit('.', 1)[0])
				return ch.split('.')[-1]
			return self._const_value(rhs)

		for a, pol in atoms(f.node, node):
			if not (isinstance(a, ast.Compare) and len(a.ops) == 1 and isinstance(a.left, ast.Name)):
				continue
			var, rhs = a.left.id, a.comparators[0]
			if isinstance(a.ops[0], (ast.Eq, ast.Is)):
				v = value_of(rhs, var)
				if v is not None:
					(pos if pol else neg).setdefault(var, set())
					if pol:
						pos[var] = (pos[var] & {v}) if pos[var] else {v}
					else:
						neg[var].add(v)
			elif isinstance(a.ops[0], ast.In) and isinstance(rhs, (ast.List, ast.Tuple, ast.Set)):
				vs = {value_of(e, var) for e in rhs.elts}
				if None in vs:
					continue
				if pol:
					pos[var] = (pos[var] & vs) if var in pos and pos[var] else set(vs)
				else:
					neg.setdefault(var, set()).update(vs)
		for var, vs in pos.items():
			facts[var] = vs - neg.get(var, set())
		for var, vs in neg.items():
			if var not in pos:
				facts[var + '#not'] = vs
		return facts

	def _pinned_elsewhere(self, f: FuncInfo, spec_member: str, var: str) -> set[str]:
		"""values of `var` pinned by sibling branches for the same spec member (so an unpinned branch covers the rest)"""
		out = set()
		for n in ast.walk(f.node):
			if isinstance(n, ast.If):
				test_src = unparse(n.test)
				if f'.Tags.{spec_member}' in test_src:
					for cmp in ast.walk(n.test):
						if isinstance(cmp, ast.Compare) and isinstance(cmp.left, ast.Name) and cmp.left.id == var and isinstance(cmp.ops[0], ast.Eq):
							v = self._const_value(cmp.comparators[0])
							if v is not None and 'len(' not in test_src:
								out.add(v)
		return out

	def _resolve(self, s: RenderSite) -> None:
		vals, why = self._values(s.func, s.tmpl, 0)
		if vals is None:
			s.unresolved = why
		else:
			s.names = vals

	def _classifications(self, f: FuncInfo) -> set[str]:
		return {f.name[3:]} if f.name.startswith('on_') and f.name != 'on_fallback' else self.classifications_reaching(f.name)

	def _values(self, f: FuncInfo, e: ast.AST, depth: int) -> tuple[set[str] | None, str]:
		"""the finite set of strings expression e (a node inside f) can evaluate to, or (None, reason)"""
		if depth > 4:
			return None, f'template expression `{unparse(e)}` is too deep'
		if const_str(e) is not None:
			return {const_str(e)}, ''
		src = unparse(e)
		if isinstance(e, ast.IfExp):
			a, wa = self._values(f, e.body, depth + 1)
			b, wb = self._values(f, e.orelse, depth + 1)
			if a is None or b is None:
				return None, wa or wb
			return a | b, ''
		if isinstance(e, ast.JoinedStr):
			parts: list[list[str]] = []
			for v in e.values:
				if isinstance(v, ast.Constant):
					parts.append([str(v.value)])
					continue
				vs, why = self._values(f, v.value, depth + 1)
				if vs is None:
					return None, why
				parts.append(sorted(vs))
			return {''.join(p) for p in itertools.product(*parts)}, ''
		if isinstance(e, ast.BinOp) and isinstance(e.op, ast.Add):
			a, wa = self._values(f, e.left, depth + 1)
			b, wb = self._values(f, e.right, depth + 1)
			if a is None or b is None:
				return None, wa or wb
			return {x + y for x in a for y in b}, ''
		if src == 'node.classification':
			cls = self._classifications(f)
			if not cls:
				return None, f'no on_* handler reaches {f.name}, cannot bound node.classification'
			return set(cls), ''
		facts = self._branch_facts(f, e)
		if isinstance(e, ast.Attribute) and e.attr == 'name' and isinstance(e.value, ast.Name) and (e.value.id + '#enum') in facts or src == 'spec.name':
			var = e.value.id if isinstance(e, ast.Attribute) and isinstance(e.value, ast.Name) else 'spec'
			if var not in facts:
				return None, f'{var}.name used outside a branch pinning `{var} == <Enum>.Tags.<member>`'
			members = self._enum_members(str(facts.get(var + '#enum', '')))
			got = set(facts[var])  # type: ignore
			if members is not None and not got <= members:
				return None, f'{facts.get(var + "#enum")}.{sorted(got - members)} is not a member of the enum'
			return got, ''
		if src == 'context_name':
			if 'context_name' in facts:
				return set(facts['context_name']), ''  # type: ignore
			if 'spec' in facts and len(facts['spec']) == 1:  # type: ignore
				member = next(iter(facts['spec']))  # type: ignore
				owner = self.mod.classes.get(str(facts.get('spec#enum', '')).rsplit('.', 1)[0])
				lst = owner.class_attrs.get(f'{member}_methods') if owner else None
				vals = self._const_list(lst, owner) if lst is not None else None
				if vals is None:
					return None, f'context_name is not pinned and {member}_methods is not a constant list'
				return {x for x in vals if x not in self._pinned_elsewhere(f, member, 'context_name')}, ''
			return None, 'context_name used without a pinned spec'
		if isinstance(e, ast.Name):
			vals = self._local_values(f, e.id, e, depth)
			if vals is None:
				return None, f'cannot bound local `{e.id}` in template expression'
			return vals, ''
		return None, f'unsupported interpolation `{src}`'

	def _local_values(self, f: FuncInfo, name: str, at: ast.AST, depth: int = 0) -> set[str] | None:
		"""string values a local can hold: union over its assignments of constants, node.classification, conditional expressions, f-strings,
		dict.get(k, default) over a constant dict"""
		vals: set[str] = set()
		found = False
		for n in walk_no_nested(f.node):
			tgt = n.targets[0] if isinstance(n, ast.Assign) and len(n.targets) == 1 else n.target if isinstance(n, ast.AnnAssign) and n.value is not None else None
			if isinstance(tgt, ast.Name) and tgt.id == name:
				found = True
				v = n.value
				if const_str(v) is not None:
					vals.add(const_str(v))
				elif unparse(v) == 'node.classification':
					vals |= {f.name[3:]} if f.name.startswith('on_') else self.classifications_reaching(f.name)
				elif isinstance(v, (ast.IfExp, ast.JoinedStr, ast.BinOp, ast.Name, ast.Attribute)) and self._values(f, v, depth + 1)[0] is not None:
					vals |= self._values(f, v, depth + 1)[0]  # type: ignore
				elif isinstance(v, ast.Call) and isinstance(v.func, ast.Attribute) and v.func.attr == 'get' and len(v.args) == 2:
					ch = attr_chain(v.func.value)
					d = None
					if ch:
						r = self.idx.resolve_name(self.mod, ch.rsplit('.', 1)[0])
						if r and r[0] == 'class':
							d = r[1].class_attrs.get(ch.rsplit('.', 1)[1])  # type: ignore
					if isinstance(d, ast.Dict):
						for dv in d.values:
							cv = self._const_value(dv)
							if cv is None:
								return None
							vals.add(cv)
						if unparse(v.args[1]) == 'node.classification':
							vals |= {f.name[3:]} if f.name.startswith('on_') else self.classifications_reaching(f.name)
						elif const_str(v.args[1]) is not None:
							vals.add(const_str(v.args[1]))
						else:
							return None
					else:
						return None
				else:
					# `x = E` under `if E in [consts]`
					pm = parent_map(f.node)
					cur, got = n, None
					while id(cur) in pm and got is None:
						cur = pm[id(cur)]
						if isinstance(cur, ast.If):
							for cmp in ast.walk(cur.test):
								if isinstance(cmp, ast.Compare) and len(cmp.ops) == 1 and isinstance(cmp.ops[0], ast.In) and unparse(cmp.left) == unparse(v):
									got = self._const_list(cmp.comparators[0], None)
					if got is None:
						return None
					vals |= set(got)
		return vals if found and vals else None
