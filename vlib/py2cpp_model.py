"""Static model of Py2Cpp: `on_*` handlers, helper call graph inside the class, and the template names each
`self.render(node, <expr>, vars=...)` / `self.view.render(<expr>, ...)` call site can resolve to."""
from __future__ import annotations

import ast
import itertools

from vlib.core import AnalysisError
from vlib.flow import parent_map
from vlib.srcindex import ClassInfo, FuncInfo, SourceIndex, attr_chain, const_str, unparse, walk_no_nested

PY2CPP = 'rogw/tranp/implements/cpp/transpiler/py2cpp.py'


class RenderSite:
	def __init__(self, func: FuncInfo, call: ast.Call, tmpl: ast.AST, vars_expr: ast.AST | None) -> None:
		self.func = func
		self.call = call
		self.tmpl = tmpl
		self.vars_expr = vars_expr
		self.names: set[str] = set()
		self.unresolved: str | None = None

	@property
	def where(self) -> tuple[str, int]:
		return (self.func.module.relpath, self.call.lineno)


class Py2CppModel:
	def __init__(self, idx: SourceIndex) -> None:
		self.idx = idx
		self.mod = idx.mod(PY2CPP)
		self.cls = self.mod.cls('Py2Cpp')
		self.handlers: dict[str, FuncInfo] = {n: d[-1] for n, d in self.cls.methods.items() if n.startswith('on_')}
		self.methods: dict[str, FuncInfo] = {n: d[-1] for n, d in self.cls.methods.items()}
		self._callers: dict[str, set[str]] | None = None

	# -- which handlers reach a helper ---------------------------------------------------------------------------

	def self_calls(self, f: FuncInfo) -> set[str]:
		out = set()
		for n in ast.walk(f.node):
			if isinstance(n, ast.Call) and isinstance(n.func, ast.Attribute) and isinstance(n.func.value, ast.Name) and n.func.value.id == 'self' and n.func.attr in self.methods:
				out.add(n.func.attr)
		return out

	def classifications_reaching(self, name: str) -> set[str]:
		"""classifications of the on_* handlers from which method `name` is reachable through self.<m>() calls"""
		if self._callers is None:
			self._callers = {}
			for m, f in self.methods.items():
				for callee in self.self_calls(f):
					self._callers.setdefault(callee, set()).add(m)
		out: set[str] = set()
		seen, work = set(), [name]
		while work:
			cur = work.pop()
			if cur in seen:
				continue
			seen.add(cur)
			if cur.startswith('on_'):
				out.add(cur[3:])
				continue
			work.extend(self._callers.get(cur, ()))
		return out

	# -- render sites ------------------------------------------------------------------------------------------------

	def render_sites(self) -> list[RenderSite]:
		sites = []
		for name, f in self.methods.items():
			if name == 'render':
				continue
			for n in ast.walk(f.node):
				if isinstance(n, ast.Call) and isinstance(n.func, ast.Attribute) and n.func.attr == 'render':
					recv = unparse(n.func.value)
					if recv == 'self' and len(n.args) >= 2:
						tmpl = n.args[1]
					elif recv == 'self.view' and len(n.args) >= 1:
						tmpl = n.args[0]
					else:
						continue
					vars_expr = next((k.value for k in n.keywords if k.arg == 'vars'), None)
					s = RenderSite(f, n, tmpl, vars_expr)
					self._resolve(s)
					sites.append(s)
		return sites

	def _enum_members(self, dotted: str) -> set[str] | None:
		"""members of an Enum class nested in a class of py2cpp.py, e.g. FuncCallSpec.Tags"""
		c = self.mod.classes.get(dotted)
		if c is None:
			return None
		return {k for k in c.class_attrs}

	def _const_list(self, expr: ast.AST, owner: ClassInfo | None) -> list[str] | None:
		"""evaluate a list literal of `X.y.__name__` / string constants / `*other_list`"""
		if not isinstance(expr, (ast.List, ast.Tuple)):
			return None
		out: list[str] = []
		for e in expr.elts:
			if isinstance(e, ast.Starred):
				if isinstance(e.value, ast.Name) and owner is not None and e.value.id in owner.class_attrs:
					sub = self._const_list(owner.class_attrs[e.value.id], owner)
					if sub is None:
						return None
					out.extend(sub)
					continue
				return None
			v = self._const_value(e)
			if v is None:
				return None
			out.append(v)
		return out

	def _const_value(self, e: ast.AST) -> str | None:
		if const_str(e) is not None:
			return const_str(e)
		if isinstance(e, ast.Attribute) and e.attr == '__name__':
			ch = attr_chain(e.value)
			if ch:
				return ch.split('.')[-1]
		if isinstance(e, ast.Attribute):
			# PythonClassOperations.copy_constructor -> class attribute constant
			ch = attr_chain(e)
			if ch:
				r = self.idx.resolve_name(self.mod, ch.rsplit('.', 1)[0])
				if r and r[0] == 'class' and ch.rsplit('.', 1)[1] in r[1].class_attrs:  # type: ignore
					return self._const_value(r[1].class_attrs[ch.rsplit('.', 1)[1]])  # type: ignore
		return None

	def _branch_facts(self, f: FuncInfo, node: ast.AST) -> dict[str, str]:
		"""facts pinned by the enclosing if-tests on the true side: {'spec': member, 'context_name': value, 'spec_enum': dotted enum}"""
		pm = parent_map(f.node)
		facts: dict[str, str] = {}
		cur = node
		while id(cur) in pm:
			par = pm[id(cur)]
			if isinstance(par, ast.If) and any(cur is s for s in par.body):
				for cmp in ast.walk(par.test):
					if isinstance(cmp, ast.Compare) and len(cmp.ops) == 1 and isinstance(cmp.ops[0], ast.Eq) and isinstance(cmp.left, ast.Name):
						rhs = cmp.comparators[0]
						ch = attr_chain(rhs)
						if ch and '.Tags.' in ch:
							facts.setdefault(cmp.left.id, ch.split('.')[-1])
							facts.setdefault(cmp.left.id + '#enum', ch.rsplit('.', 1)[0])
						else:
							v = self._const_value(rhs)
							if v is not None:
								facts.setdefault(cmp.left.id, v)
			cur = par
		return facts

	def _pinned_elsewhere(self, f: FuncInfo, spec_member: str, var: str) -> set[str]:
		"""values of `var` pinned by sibling branches for the same spec member (so an unpinned branch covers the rest)"""
		out = set()
		for n in ast.walk(f.node):
			if isinstance(n, ast.If):
				test_src = unparse(n.test)
				if f'.Tags.{spec_member}' in test_src:
					for cmp in ast.walk(n.test):
						if isinstance(cmp, ast.Compare) and isinstance(cmp.left, ast.Name) and cmp.left.id == var and isinstance(cmp.ops[0], ast.Eq):
							v = self._const_value(cmp.comparators[0])
							if v is not None and 'len(' not in test_src:
								out.add(v)
		return out

	def _resolve(self, s: RenderSite) -> None:
		f, t = s.func, s.tmpl
		if const_str(t) is not None:
			s.names = {const_str(t)}
			return
		if isinstance(t, ast.Name):
			vals = self._local_values(f, t.id, s.call)
			if vals is None:
				s.unresolved = f'template expression `{unparse(t)}` is a non-constant name'
			else:
				s.names = vals
			return
		if not isinstance(t, ast.JoinedStr):
			s.unresolved = f'template expression `{unparse(t)}` is neither a constant nor an f-string'
			return
		facts = self._branch_facts(f, s.call)
		parts: list[list[str]] = []
		for v in t.values:
			if isinstance(v, ast.Constant):
				parts.append([str(v.value)])
				continue
			e = v.value
			src = unparse(e)
			if src == 'node.classification':
				cls = {f.name[3:]} if f.name.startswith('on_') and f.name != 'on_fallback' else self.classifications_reaching(f.name)
				if not cls:
					s.unresolved = f'no on_* handler reaches {f.name}, cannot bound node.classification'
					return
				parts.append(sorted(cls))
			elif src == 'spec.name':
				if 'spec' not in facts:
					s.unresolved = 'spec.name used outside a branch pinning `spec == <Enum>.Tags.<member>`'
					return
				members = self._enum_members(facts.get('spec#enum', ''))
				if members is not None and facts['spec'] not in members:
					s.unresolved = f'{facts.get("spec#enum")}.{facts["spec"]} is not a member of the enum'
					return
				parts.append([facts['spec']])
			elif src == 'context_name':
				if 'context_name' in facts:
					parts.append([facts['context_name']])
				elif 'spec' in facts:
					owner = self.mod.classes.get(facts.get('spec#enum', '').rsplit('.', 1)[0])
					lst = owner.class_attrs.get(f'{facts["spec"]}_methods') if owner else None
					vals = self._const_list(lst, owner) if lst is not None else None
					if vals is None:
						s.unresolved = f'context_name is not pinned and {facts["spec"]}_methods is not a constant list'
						return
					rest = [x for x in vals if x not in self._pinned_elsewhere(f, facts['spec'], 'context_name')]
					parts.append(rest)
				else:
					s.unresolved = 'context_name used without a pinned spec'
					return
			elif isinstance(e, ast.Name):
				vals = self._local_values(f, e.id, s.call)
				if vals is None:
					s.unresolved = f'cannot bound local `{e.id}` in template expression'
					return
				parts.append(sorted(vals))
			else:
				s.unresolved = f'unsupported interpolation `{src}`'
				return
		s.names = {''.join(p) for p in itertools.product(*parts)}

	def _local_values(self, f: FuncInfo, name: str, at: ast.AST) -> set[str] | None:
		"""string values a local can hold: constants, node.classification, dict.get(k, default) over a constant dict"""
		vals: set[str] = set()
		found = False
		for n in walk_no_nested(f.node):
			if isinstance(n, ast.Assign) and len(n.targets) == 1 and isinstance(n.targets[0], ast.Name) and n.targets[0].id == name:
				found = True
				v = n.value
				if const_str(v) is not None:
					vals.add(const_str(v))
				elif unparse(v) == 'node.classification':
					vals |= {f.name[3:]} if f.name.startswith('on_') else self.classifications_reaching(f.name)
				elif isinstance(v, ast.Call) and isinstance(v.func, ast.Attribute) and v.func.attr == 'get' and len(v.args) == 2:
					ch = attr_chain(v.func.value)
					d = None
					if ch:
						r = self.idx.resolve_name(self.mod, ch.rsplit('.', 1)[0])
						if r and r[0] == 'class':
							d = r[1].class_attrs.get(ch.rsplit('.', 1)[1])  # type: ignore
					if isinstance(d, ast.Dict):
						for dv in d.values:
							cv = self._const_value(dv)
							if cv is None:
								return None
							vals.add(cv)
						if unparse(v.args[1]) == 'node.classification':
							vals |= {f.name[3:]} if f.name.startswith('on_') else self.classifications_reaching(f.name)
						elif const_str(v.args[1]) is not None:
							vals.add(const_str(v.args[1]))
						else:
							return None
					else:
						return None
				else:
					# `x = E` under `if E in [consts]`
					pm = parent_map(f.node)
					cur, got = n, None
					while id(cur) in pm and got is None:
						cur = pm[id(cur)]
						if isinstance(cur, ast.If):
							for cmp in ast.walk(cur.test):
								if isinstance(cmp, ast.Compare) and len(cmp.ops) == 1 and isinstance(cmp.ops[0], ast.In) and unparse(cmp.left) == unparse(v):
									got = self._const_list(cmp.comparators[0], None)
					if got is None:
						return None
					vals |= set(got)
		return vals if found and vals else None
