"""Alias expansion: make structural rules insensitive to the introduction/removal of trivial temporaries.

`Expander(func)` substitutes single-assignment locals whose value is a pure access path (name, attribute chain, constant
subscript, call-free) — also through the enclosing functions of a closure — so that `entry = self.__entry; entry.meta.line`
is seen as `self.__entry.meta.line` and `m = e['source_map']; m[0]` as `e['source_map'][0]`."""
from __future__ import annotations

import ast
import copy

from vlib.srcindex import FuncInfo, unparse, walk_no_nested


def _is_pure_path(e: ast.AST) -> bool:
	if isinstance(e, ast.Name):
		return True
	if isinstance(e, ast.Attribute):
		return _is_pure_path(e.value)
	if isinstance(e, ast.Subscript):
		return _is_pure_path(e.value) and isinstance(e.slice, ast.Constant)
	if isinstance(e, ast.Call) and isinstance(e.func, ast.Name) and e.func.id == 'cast' and len(e.args) == 2:
		return _is_pure_path(e.args[1])
	return False


class Expander:
	def __init__(self, func: FuncInfo, extra_pure=None) -> None:
		self.func = func
		self.alias: dict[str, ast.AST] = {}
		chain = []
		cur: FuncInfo | None = func
		while cur is not None:
			chain.append(cur)
			outer_q = cur.qualname.rsplit('.<locals>.', 1)[0] if '.<locals>.' in cur.qualname else None
			cur = cur.module.functions.get(outer_q) if outer_q else None
		for f in reversed(chain):
			counts: dict[str, int] = {}
			defs: dict[str, ast.AST] = {}
			params = set(f.params())
			for n in walk_no_nested(f.node):
				targets = []
				if isinstance(n, ast.Assign):
					targets = n.targets
				elif isinstance(n, (ast.AnnAssign, ast.AugAssign)):
					targets = [n.target]
				elif isinstance(n, (ast.For, ast.comprehension)):
					targets = [n.target]
				elif isinstance(n, ast.NamedExpr):
					targets = [n.target]
				for t in targets:
					for x in ast.walk(t):
						if isinstance(x, ast.Name) and isinstance(x.ctx, (ast.Store, ast.Del)):
							counts[x.id] = counts.get(x.id, 0) + 1
				if isinstance(n, (ast.Assign, ast.AnnAssign)) and getattr(n, 'value', None) is not None:
					tgt = n.targets[0] if isinstance(n, ast.Assign) and len(n.targets) == 1 else (n.target if isinstance(n, ast.AnnAssign) else None)
					if isinstance(tgt, ast.Name):
						defs[tgt.id] = n.value
					elif isinstance(tgt, ast.Tuple) and isinstance(n.value, ast.Tuple) and len(tgt.elts) == len(n.value.elts):
						for a, b in zip(tgt.elts, n.value.elts):
							if isinstance(a, ast.Name):
								defs[a.id] = b
			for name, v in defs.items():
				if counts.get(name) == 1 and name not in params and (_is_pure_path(v) or (extra_pure and extra_pure(v))):
					self.alias[name] = v

	def expand(self, e: ast.AST, depth: int = 0) -> ast.AST:
		"""a copy of e with aliases substituted"""
		if depth > 6:
			return e
		outer = self

		class T(ast.NodeTransformer):
			def visit_Name(self, node: ast.Name):
				if isinstance(node.ctx, ast.Load) and node.id in outer.alias:
					v = outer.alias[node.id]
					if isinstance(v, ast.Call) and isinstance(v.func, ast.Name) and v.func.id == 'cast':
						v = v.args[1]
					return outer.expand(copy.deepcopy(v), depth + 1)
				return node
		return ast.fix_missing_locations(T().visit(copy.deepcopy(e)))

	def src(self, e: ast.AST) -> str:
		return unparse(self.expand(e))

	def local_def(self, name: str) -> ast.AST | None:
		"""value of the single assignment (Assign or AnnAssign) to `name` in the function or its enclosing functions"""
		cur: FuncInfo | None = self.func
		while cur is not None:
			found = None
			n_ = 0
			for n in walk_no_nested(cur.node):
				tgt = None
				if isinstance(n, ast.Assign) and len(n.targets) == 1:
					tgt = n.targets[0]
				elif isinstance(n, ast.AnnAssign):
					tgt = n.target
				if isinstance(tgt, ast.Name) and tgt.id == name and getattr(n, 'value', None) is not None:
					found = n.value
					n_ += 1
			if n_ == 1:
				return found
			outer_q = cur.qualname.rsplit('.<locals>.', 1)[0] if '.<locals>.' in cur.qualname else None
			cur = cur.module.functions.get(outer_q) if outer_q else None
		return None


def helper_closure(func: FuncInfo, depth: int = 2) -> list[FuncInfo]:
	"""func plus the same-class private helpers / nested functions it calls (transitively up to depth): lets a rule see code that was extracted into a helper"""
	out = [func]
	seen = {id(func)}
	work = [(func, 0)]
	while work:
		f, d = work.pop()
		if d >= depth:
			continue
		for n in walk_no_nested(f.node):
			if not isinstance(n, ast.Call):
				continue
			g = None
			if isinstance(n.func, ast.Attribute) and isinstance(n.func.value, ast.Name) and n.func.value.id in ('self', 'cls') and f.cls is not None:
				g = f.cls.method(n.func.attr)
			elif isinstance(n.func, ast.Name):
				g = f.module.functions.get(f'{f.qualname}.<locals>.{n.func.id}') or f.module.functions.get(n.func.id)
			if g is not None and id(g) not in seen:
				seen.add(id(g))
				out.append(g)
				work.append((g, d + 1))
	return out
