"""How Py2Cpp renders each Python operator token: emitted C++ operator and output shape, derived from the handler code
(path conditions on the operator) and the Jinja ASTs of operation/*.j2."""
from __future__ import annotations

import ast
import re
from dataclasses import dataclass, field

from vlib.flow import parent_map
from vlib.py2cpp_model import Py2CppModel
from vlib.srcindex import FuncInfo, const_str, unparse
from vlib.templates import TemplateModel


@dataclass
class Form:
	kind: str                 # infix | prefix | ternary | closed | postfix-on
	cpp: str                  # emitted C++ operator token ('' for closed forms)
	template: str
	branch: str
	pattern: str
	open_slots: dict = field(default_factory=dict)   # slot name -> 'left' | 'right' | 'operand' | 'condition' | 'middle' | 'postfix'
	where: tuple = ('', 0)


def py_eval(e: ast.AST, tok: str, opnames: set[str]):
	"""partial evaluation of a Python condition with the operator token known: True / False / None (unknown)"""
	def val(x):
		if isinstance(x, ast.Name) and x.id in opnames:
			return tok
		if isinstance(x, ast.Subscript) and isinstance(x.value, ast.Name) and x.value.id in ('operators',):
			return tok
		if isinstance(x, ast.Constant):
			return x.value
		if isinstance(x, (ast.List, ast.Tuple)):
			vs = [val(i) for i in x.elts]
			return vs if all(v is not None for v in vs) else None
		return None
	if isinstance(e, ast.BoolOp):
		vs = [py_eval(v, tok, opnames) for v in e.values]
		if isinstance(e.op, ast.And):
			return False if any(v is False for v in vs) else (True if all(v is True for v in vs) else None)
		return True if any(v is True for v in vs) else (False if all(v is False for v in vs) else None)
	if isinstance(e, ast.UnaryOp) and isinstance(e.op, ast.Not):
		v = py_eval(e.operand, tok, opnames)
		return None if v is None else (not v)
	if isinstance(e, ast.Compare) and len(e.ops) == 1:
		a, b = val(e.left), val(e.comparators[0])
		if a is None or b is None:
			return None
		op = e.ops[0]
		if isinstance(op, ast.Eq):
			return a == b
		if isinstance(op, ast.NotEq):
			return a != b
		if isinstance(op, ast.In):
			return a in b
		if isinstance(op, ast.NotIn):
			return a not in b
	return None


def jinja_eval(tm: TemplateModel, e, env: dict):
	n = tm.nodes
	def val(x):
		if isinstance(x, n.Name):
			return env.get(x.name)
		if isinstance(x, n.Const):
			return x.value
		if isinstance(x, n.List):
			vs = [val(i) for i in x.items]
			return vs if all(v is not None for v in vs) else None
		return None
	if isinstance(e, n.And):
		a, b = jinja_eval(tm, e.left, env), jinja_eval(tm, e.right, env)
		return False if (a is False or b is False) else (True if (a is True and b is True) else None)
	if isinstance(e, n.Or):
		a, b = jinja_eval(tm, e.left, env), jinja_eval(tm, e.right, env)
		return True if (a is True or b is True) else (False if (a is False and b is False) else None)
	if isinstance(e, n.Not):
		v = jinja_eval(tm, e.node, env)
		return None if v is None else (not v)
	if isinstance(e, n.Compare) and len(e.ops) == 1:
		a, b = val(e.expr), val(e.ops[0].expr)
		if a is None or b is None:
			return None
		op = e.ops[0].op
		return {'eq': a == b, 'ne': a != b, 'in': (a in b) if isinstance(b, (list, str)) else None, 'notin': (a not in b) if isinstance(b, (list, str)) else None}.get(op)
	if isinstance(e, n.Name):
		v = env.get(e.name)
		return None if v is None else bool(v)
	return None


def _balanced_outer(s: str, open_at: int) -> bool:
	"""the '(' at open_at closes at the last character of s"""
	depth = 0
	for i in range(open_at, len(s)):
		if s[i] == '(':
			depth += 1
		elif s[i] == ')':
			depth -= 1
			if depth == 0:
				return i == len(s) - 1
	return False


def classify(parts: list, operator_value: str | None) -> tuple[str, str, str, dict]:
	"""(kind, cpp token, pattern, open slots) of one template branch"""
	pat = ''
	for p in parts:
		if p[0] == 'text':
			pat += p[1]
		elif p[0] == 'var':
			pat += '{' + p[1] + '}'
		elif p[0] == 'expr':
			pat += '{=' + re.sub(r'[^\w.]', '_', p[1]) + '}'
		else:
			pat += '{%' + p[1] + '%}'
	pat = pat.strip()
	m = re.fullmatch(r'\{(\w+)\}\s*(\S+|\{operator\})\s*\{(\w+)\}', pat)
	if m and ' ' in pat:
		tok = operator_value if m.group(2) == '{operator}' else m.group(2)
		return 'infix', tok or '?', pat, {m.group(1): 'left', m.group(3): 'right'}
	m = re.fullmatch(r'(\{operator\}|[^\s{}()]+)\{(\w+)\}', pat)
	if m:
		tok = operator_value if m.group(1) == '{operator}' else m.group(1)
		return 'prefix', tok or '?', pat, {m.group(2): 'operand'}
	m = re.fullmatch(r'\{(\w+)\}\s*\?\s*\{(\w+)\}\s*:\s*\{(\w+)\}', pat)
	if m:
		return 'ternary', '?:', pat, {m.group(1): 'condition', m.group(2): 'middle', m.group(3): 'right'}
	slots = re.findall(r'\{(\w+)\}', pat)
	if pat.startswith('(') and _balanced_outer(pat, 0):
		kind = 'closed'
	else:
		first = pat.find('(')
		head = pat[:first] if first > 0 else ''
		if first > 0 and _balanced_outer(pat, first) and re.fullmatch(r'(\{=[^}]*\}|[\w:<>]|\{\w+\})+', head) and not re.match(r'\{(\w+)\}\.', pat):
			kind = 'closed'
		elif re.match(r'\{(\w+)\}\.', pat) and pat.endswith(')'):
			kind = 'postfix-on'
		else:
			return 'unknown', '', pat, {}
	# slots followed by '.' or '[' or '(' need postfix-tight operands; slots delimited by ',' '(' ')' are closed
	open_slots = {}
	for mm in re.finditer(r'\{(\w+)\}(\.|\[|\()', pat):
		open_slots[mm.group(1)] = 'postfix'
	return kind, '', pat, open_slots


def handler_forms(pm: Py2CppModel, tm: TemplateModel, handler: FuncInfo, tok: str) -> tuple[list[Form], list[str]]:
	"""forms Py2Cpp can emit for operator token `tok` handled by `handler` (follows self.proc_* helpers)"""
	forms: list[Form] = []
	problems: list[str] = []
	seen: set[str] = set()
	work = [handler]
	while work:
		f = work.pop()
		if f.name in seen:
			continue
		seen.add(f.name)
		parents = parent_map(f.node)
		opnames = {'operator'}
		for n in ast.walk(f.node):
			if not isinstance(n, ast.Call) or not isinstance(n.func, ast.Attribute):
				continue
			# path conditions of this call inside f
			feasible = True
			cur = n
			while id(cur) in parents:
				par = parents[id(cur)]
				if isinstance(par, ast.If):
					in_body = any(cur is s for s in par.body)
					in_else = any(cur is s for s in par.orelse)
					v = py_eval(par.test, tok, opnames)
					if in_body and v is False:
						feasible = False
					if in_else and v is True:
						feasible = False
				elif isinstance(par, ast.IfExp):
					v = py_eval(par.test, tok, opnames)
					if cur is par.body and v is False:
						feasible = False
					if cur is par.orelse and v is True:
						feasible = False
				cur = par
			if not feasible:
				continue
			if isinstance(n.func.value, ast.Name) and n.func.value.id == 'self' and n.func.attr in pm.methods and n.func.attr.startswith('proc_'):
				work.append(pm.methods[n.func.attr])
				continue
			if n.func.attr != 'render' or unparse(n.func.value) != 'self' or len(n.args) < 2:
				continue
			tname = const_str(n.args[1])
			vars_expr = next((k.value for k in n.keywords if k.arg == 'vars'), None)
			if tname is None:
				# f'operation/{node.classification}'
				if isinstance(n.args[1], ast.JoinedStr) and unparse(n.args[1]) == "f'operation/{node.classification}'":
					tname = f'operation/{handler.name[3:]}'
				else:
					problems.append(f'{f.qualname}: template expression {unparse(n.args[1])} not constant')
					continue
			if not tm.parses(tname):
				problems.append(f'{f.qualname}: template {tname} missing or unparseable')
				continue
			opval: str | None = None
			passthrough = False
			if isinstance(vars_expr, ast.Dict):
				for k, v in zip(vars_expr.keys, vars_expr.values):
					if const_str(k) == 'operator':
						if const_str(v) is not None:
							opval = const_str(v)
						elif isinstance(v, ast.Name) and v.id in opnames:
							opval, passthrough = tok, True
						else:
							problems.append(f'{f.qualname}: operator variable {unparse(v)} is not the source token or a constant')
			env = {'operator': opval} if opval is not None else {}
			taken = False
			for cond, parts in tm.branches(tname):
				ast_if = None
				if cond not in ('always', 'else'):
					# re-find the test node to evaluate
					pass
				sel = _branch_feasible(tm, tname, cond, env)
				if sel is False:
					continue
				kind, cpp, pat, slots = classify(parts, opval)
				if kind == 'unknown':
					problems.append(f'{tname}[{cond}]: output shape `{pat}` not recognised')
				else:
					forms.append(Form(kind, cpp, tname, cond, pat, slots, (tm.relpath(tname), 1)))
				if sel is True:
					taken = True
					break
			_ = taken
	return forms, problems


def _branch_feasible(tm: TemplateModel, tname: str, cond: str, env: dict):
	"""evaluate the branch condition (re-located by its source text) under env; True/False/None"""
	n = tm.nodes
	if cond == 'always':
		return True
	body = tm.flat(tname).body
	ifs = [b for b in body if isinstance(b, n.If)]
	if not ifs:
		return None
	node = ifs[0]
	tests = [(tm._src(node.test), node.test)] + [(tm._src(el.test), el.test) for el in node.elif_]
	if cond == 'else':
		vals = [jinja_eval(tm, t, env) for _, t in tests]
		if any(v is True for v in vals):
			return False
		return True if all(v is False for v in vals) else None
	prior_true = False
	for src, t in tests:
		v = jinja_eval(tm, t, env)
		if src == cond:
			if prior_true:
				return False
			return v
		if v is True:
			prior_true = True
	return None
