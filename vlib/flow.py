"""Small structural helpers over function bodies: parent maps, try-enclosure, handler descriptions."""
from __future__ import annotations

import ast

from vlib.srcindex import attr_chain, unparse


def parent_map(root: ast.AST) -> dict[int, ast.AST]:
	pm: dict[int, ast.AST] = {}
	for n in ast.walk(root):
		for c in ast.iter_child_nodes(n):
			pm[id(c)] = n
	return pm


def enclosing_tries(node: ast.AST, pm: dict[int, ast.AST], stop: ast.AST | None = None) -> list[ast.Try]:
	"""Try statements whose *body* (not handlers/else/finally) contains node, innermost first; stops at function boundaries"""
	out = []
	cur = node
	while id(cur) in pm:
		par = pm[id(cur)]
		if isinstance(par, ast.Try) and any(cur is s for s in par.body):
			out.append(par)
		if par is stop or isinstance(par, (ast.FunctionDef, ast.AsyncFunctionDef, ast.Lambda, ast.ClassDef)):
			break
		cur = par
	return out


def handler_types(h: ast.ExceptHandler) -> list[str]:
	if h.type is None:
		return ['BaseException']
	if isinstance(h.type, ast.Tuple):
		return [attr_chain(e) or unparse(e) for e in h.type.elts]
	return [attr_chain(h.type) or unparse(h.type)]


def handler_raises(h: ast.ExceptHandler) -> list[ast.Raise]:
	return [n for n in ast.walk(h) if isinstance(n, ast.Raise)]


def raised_name(r: ast.Raise) -> str | None:
	"""dotted name of the exception class raised: `raise X(...)` / `raise X`; None for bare `raise`; 'var:<name>' for `raise e`"""
	if r.exc is None:
		return None
	e = r.exc
	if isinstance(e, ast.Call):
		return attr_chain(e.func) or unparse(e.func)
	return attr_chain(e) or unparse(e)


def stmt_of(node: ast.AST, pm: dict[int, ast.AST]) -> ast.stmt | None:
	cur = node
	while cur is not None and not isinstance(cur, ast.stmt):
		cur = pm.get(id(cur))
	return cur  # type: ignore
