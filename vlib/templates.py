"""TemplateModel: Jinja ASTs of data/cpp/template/**/*.j2 (jinja2 used as a parser of data files; nothing is rendered)."""
from __future__ import annotations

import os

from vlib.core import REPO, AnalysisError

TEMPLATE_DIR = 'data/cpp/template'


class TemplateModel:
	def __init__(self, reldir: str = TEMPLATE_DIR) -> None:
		try:
			import jinja2
			from jinja2 import nodes
		except ImportError as e:
			raise AnalysisError(f'jinja2 is not importable: {e}')
		self.nodes = nodes
		self.reldir = reldir
		self.env = jinja2.Environment()
		self.asts: dict[str, object] = {}
		self.errors: dict[str, str] = {}
		self.sources: dict[str, str] = {}
		root = os.path.join(REPO, reldir)
		if not os.path.isdir(root):
			raise AnalysisError(f'template directory vanished: {reldir}')
		for d, _, files in sorted(os.walk(root)):
			for f in sorted(files):
				if not f.endswith('.j2'):
					continue
				path = os.path.join(d, f)
				name = os.path.relpath(path, root)[:-3].replace(os.sep, '/')
				with open(path, encoding='utf-8') as fh:
					src = fh.read()
				self.sources[name] = src
				try:
					self.asts[name] = self.env.parse(src, name=name)
				except jinja2.TemplateSyntaxError as e:
					self.errors[name] = f'{e.message} (line {e.lineno})'

	def relpath(self, name: str) -> str:
		return f'{self.reldir}/{name}.j2'

	def exists(self, name: str) -> bool:
		return name in self.sources

	def parses(self, name: str) -> bool:
		return name in self.asts

	def calls(self, name: str) -> list[tuple[str, object]]:
		"""(callee name, Call node) for every call of a plain name in the template"""
		out = []
		for n in self.asts[name].find_all(self.nodes.Call):
			if isinstance(n.node, self.nodes.Name):
				out.append((n.node.name, n))
		return out

	def filters(self, name: str) -> list[tuple[str, object]]:
		return [(n.name, n) for n in self.asts[name].find_all(self.nodes.Filter)]

	def includes(self, name: str) -> list[str]:
		out = []
		for n in self.asts[name].find_all((self.nodes.Include, self.nodes.Import, self.nodes.FromImport, self.nodes.Extends)):
			t = n.template
			if isinstance(t, self.nodes.Const) and isinstance(t.value, str):
				out.append(t.value[:-3] if t.value.endswith('.j2') else t.value)
			else:
				out.append('<dynamic>')
		return out

	def locally_defined(self, name: str) -> set[str]:
		"""names bound inside the template: set/for/macro/import targets and macro params"""
		n = self.nodes
		out: set[str] = set()
		for x in self.asts[name].find_all(n.Name):
			if x.ctx in ('store', 'param'):
				out.add(x.name)
		for x in self.asts[name].find_all(n.Macro):
			out.add(x.name)
		for x in self.asts[name].find_all(n.Import):
			out.add(x.target)
		for x in self.asts[name].find_all(n.FromImport):
			for nm in x.names:
				out.add(nm[1] if isinstance(nm, tuple) else nm)
		return out

	# -- output shapes (for the operator precedence rule) ---------------------------------------------------------

	def branches(self, name: str) -> list[tuple[str, list]]:
		"""[(condition source, [output parts])] of the top-level if/elif/else chain (or one unconditional branch).
		An output part is ('text', str) or ('var', name, expr-node)."""
		n = self.nodes
		body = self.asts[name].body
		out: list[tuple[str, list]] = []

		def parts_of(nodes_list) -> list:
			parts = []
			for b in nodes_list:
				if isinstance(b, n.Output):
					for e in b.nodes:
						if isinstance(e, n.TemplateData):
							parts.append(('text', e.data))
						elif isinstance(e, n.Name):
							parts.append(('var', e.name, e))
						else:
							parts.append(('expr', self._src(e), e))
				else:
					parts.append(('stmt', type(b).__name__, b))
			return parts

		def walk_if(node, prefix: str) -> None:
			out.append((prefix + self._src(node.test), parts_of(node.body)))
			for el in node.elif_:
				out.append((self._src(el.test), parts_of(el.body)))
			if node.else_:
				out.append(('else', parts_of(node.else_)))

		sig = [b for b in body if not (isinstance(b, n.Output) and all(isinstance(e, n.TemplateData) and not e.data.strip() for e in b.nodes))]
		if len(sig) == 1 and isinstance(sig[0], n.If):
			walk_if(sig[0], '')
		else:
			out.append(('always', parts_of(body)))
		return out

	def _src(self, e) -> str:
		n = self.nodes
		if isinstance(e, n.Name):
			return e.name
		if isinstance(e, n.Const):
			return repr(e.value)
		if isinstance(e, n.Compare):
			return self._src(e.expr) + ''.join(f' {o.op} {self._src(o.expr)}' for o in e.ops)
		if isinstance(e, n.And):
			return f'({self._src(e.left)} and {self._src(e.right)})'
		if isinstance(e, n.Or):
			return f'({self._src(e.left)} or {self._src(e.right)})'
		if isinstance(e, n.Not):
			return f'not {self._src(e.node)}'
		if isinstance(e, n.Call):
			return f'{self._src(e.node)}({", ".join(self._src(a) for a in e.args)})'
		if isinstance(e, n.List):
			return '[' + ', '.join(self._src(a) for a in e.items) + ']'
		if isinstance(e, n.Getitem):
			return f'{self._src(e.node)}[{self._src(e.arg)}]'
		if isinstance(e, n.Getattr):
			return f'{self._src(e.node)}.{e.attr}'
		if isinstance(e, n.Slice):
			return f'{self._src(e.start) if e.start else ""}:{self._src(e.stop) if e.stop else ""}'
		if isinstance(e, n.Filter):
			return f'{self._src(e.node) if e.node else ""}|{e.name}'
		return type(e).__name__
