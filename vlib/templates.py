"""TemplateModel: Jinja ASTs of data/cpp/template/**/*.j2 (jinja2 used as a parser of data files; nothing is rendered)."""
from __future__ import annotations

import os

from vlib.core import REPO, AnalysisError

TEMPLATE_DIR = 'data/cpp/template'


class TemplateModel:
	def __init__(self, reldir: str = TEMPLATE_DIR) -> None:
		try:
			import jinja2
			from jinja2 import nodes
		except ImportError as e:
			raise AnalysisError(f'jinja2 is not importable: {e}')
		self.nodes = nodes
		self.reldir = reldir
		self.env = jinja2.Environment()
		self.asts: dict[str, object] = {}
		self.errors: dict[str, str] = {}
		self.sources: dict[str, str] = {}
		root = os.path.join(REPO, reldir)
		if not os.path.isdir(root):
			raise AnalysisError(f'template directory vanished: {reldir}')
		for d, _, files in sorted(os.walk(root)):
			for f in sorted(files):
				if not f.endswith('.j2'):
					continue
				path = os.path.join(d, f)
				name = os.path.relpath(path, root)[:-3].replace(os.sep, '/')
				with open(path, encoding='utf-8') as fh:
					src = fh.read()
				self.sources[name] = src
				try:
					self.asts[name] = self.env.parse(src, name=name)
				except jinja2.TemplateSyntaxError as e:
					self.errors[name] = f'{e.message} (line {e.lineno})'

	def relpath(self, name: str) -> str:
		return f'{self.reldir}/{name}.j2'

	def flat(self, name: str):
		"""copy of the template AST with `{% set x = expr %}` temporaries substituted into their uses (the output shape of a template does not
		depend on whether a sub-expression was named first)"""
		if not hasattr(self, '_flat'):
			self._flat: dict[str, object] = {}
		if name not in self._flat:
			import copy
			tree = copy.deepcopy(self.asts[name])
			self._inline_sets(tree.body, {})
			self._flat[name] = tree
		return self._flat[name]

	def _subst(self, node, env: dict):
		"""replace loaded names bound by an earlier `set` (returns the replacement for node itself)"""
		import copy
		n = self.nodes
		if isinstance(node, n.Name) and node.ctx == 'load' and node.name in env:
			return copy.deepcopy(env[node.name])
		for field, value in list(node.iter_fields()):
			if isinstance(value, n.Node):
				setattr(node, field, self._subst(value, env))
			elif isinstance(value, list):
				setattr(node, field, [self._subst(v, env) if isinstance(v, n.Node) else v for v in value])
		return node

	def alternatives(self, e) -> list:
		"""the expressions a conditional expression can evaluate to (`a if c else b` -> [a, b], nested)"""
		n = self.nodes
		if isinstance(e, n.CondExpr):
			return self.alternatives(e.expr1) + (self.alternatives(e.expr2) if e.expr2 is not None else [])
		return [e]

	def _inline_sets(self, body: list, env: dict) -> dict:
		"""substitutes `set` temporaries in place and returns the bindings in force after the block (an `if` does not open a scope in Jinja: a name set in
		its branches is visible afterwards; it then stands for a conditional expression over the branch values)"""
		n = self.nodes
		env = dict(env)
		keep = []
		for b in body:
			if isinstance(b, n.Assign) and isinstance(b.target, n.Name):
				env[b.target.name] = self._subst(b.node, env)
				continue
			if isinstance(b, n.Assign) and isinstance(b.target, n.Tuple) and isinstance(b.node, n.Tuple) and len(b.target.items) == len(b.node.items) and all(isinstance(t, n.Name) for t in b.target.items):
				values = [self._subst(v, env) for v in b.node.items]
				for t, v in zip(b.target.items, values):
					env[t.name] = v
				continue
			if isinstance(b, n.If):
				b.test = self._subst(b.test, env)
				arms = [(b.test, self._inline_sets(b.body, env))]
				for el in b.elif_:
					el.test = self._subst(el.test, env)
					arms.append((el.test, self._inline_sets(el.body, env)))
				else_env = self._inline_sets(b.else_, env)
				names = {k for _, e_ in arms for k in e_ if e_.get(k) is not env.get(k)} | {k for k in else_env if else_env.get(k) is not env.get(k)}
				for k in names:
					value = else_env.get(k, env.get(k))
					for test, e_ in reversed(arms):
						v = e_.get(k, env.get(k))
						if v is None and value is None:
							continue
						value = n.CondExpr(test, v if v is not None else n.Name(k, 'load'), value) if v is not value else value
					if value is not None:
						env[k] = value
				keep.append(b)
				continue
			if isinstance(b, (n.For, n.Macro, n.CallBlock, n.FilterBlock, n.With)) and isinstance(getattr(b, 'body', None), list):
				# the statement's own expressions see the outer bindings; its body may add bindings of its own
				for field, value in list(b.iter_fields()):
					if field in ('body', 'else_'):
						continue
					if isinstance(value, n.Node):
						setattr(b, field, self._subst(value, env))
					elif isinstance(value, list):
						setattr(b, field, [self._subst(v, env) if isinstance(v, n.Node) else v for v in value])
				self._inline_sets(b.body, env)
				if isinstance(getattr(b, 'else_', None), list):
					self._inline_sets(b.else_, env)
				keep.append(b)
				continue
			keep.append(self._subst(b, env))
		body[:] = keep
		return env

	def exists(self, name: str) -> bool:
		return name in self.sources

	def parses(self, name: str) -> bool:
		return name in self.asts

	def calls(self, name: str) -> list[tuple[str, object]]:
		"""(callee name, Call node) for every call of a plain name in the template"""
		out = []
		for n in self.asts[name].find_all(self.nodes.Call):
			if isinstance(n.node, self.nodes.Name):
				out.append((n.node.name, n))
		return out

	def filters(self, name: str) -> list[tuple[str, object]]:
		return [(n.name, n) for n in self.asts[name].find_all(self.nodes.Filter)]

	def includes(self, name: str) -> list[str]:
		out = []
		for n in self.asts[name].find_all((self.nodes.Include, self.nodes.Import, self.nodes.FromImport, self.nodes.Extends)):
			t = n.template
			if isinstance(t, self.nodes.Const) and isinstance(t.value, str):
				out.append(t.value[:-3] if t.value.endswith('.j2') else t.value)
			else:
				out.append('<dynamic>')
		return out

	def locally_defined(self, name: str) -> set[str]:
		"""names bound inside the template: set/for/macro/import targets and macro params"""
		n = self.nodes
		out: set[str] = set()
		for x in self.asts[name].find_all(n.Name):
			if x.ctx in ('store', 'param'):
				out.add(x.name)
		for x in self.asts[name].find_all(n.Macro):
			out.add(x.name)
		for x in self.asts[name].find_all(n.Import):
			out.add(x.target)
		for x in self.asts[name].find_all(n.FromImport):
			for nm in x.names:
				out.add(nm[1] if isinstance(nm, tuple) else nm)
		return out

	# -- output shapes (for the operator precedence rule) ---------------------------------------------------------

	def branches(self, name: str) -> list[tuple[str, list]]:
		"""[(condition source, [output parts])] of the top-level if/elif/else chain (or one unconditional branch).
		An output part is ('text', str) or ('var', name, expr-node)."""
		n = self.nodes
		body = self.flat(name).body
		out: list[tuple[str, list]] = []

		def part(e, parts) -> None:
			if isinstance(e, n.TemplateData):
				parts.append(('text', e.data))
			elif isinstance(e, n.Const) and isinstance(e.value, str):
				parts.append(('text', e.value))
			elif isinstance(e, n.Concat):
				for x in e.nodes:
					part(x, parts)
			elif isinstance(e, n.Name):
				parts.append(('var', e.name, e))
			else:
				parts.append(('expr', self._src(e), e))

		def parts_of(nodes_list) -> list:
			parts = []
			for b in nodes_list:
				if isinstance(b, n.Output):
					for e in b.nodes:
						part(e, parts)
				else:
					parts.append(('stmt', type(b).__name__, b))
			return parts

		def walk_if(node, prefix: str) -> None:
			out.append((prefix + self._src(node.test), parts_of(node.body)))
			for el in node.elif_:
				out.append((self._src(el.test), parts_of(el.body)))
			if node.else_:
				out.append(('else', parts_of(node.else_)))

		sig = [b for b in body if not (isinstance(b, n.Output) and all(isinstance(e, n.TemplateData) and not e.data.strip() for e in b.nodes))]
		if len(sig) == 1 and isinstance(sig[0], n.If):
			walk_if(sig[0], '')
		else:
			out.append(('always', parts_of(body)))
		return out

	def _src(self, e) -> str:
		n = self.nodes
		if isinstance(e, n.Name):
			return e.name
		if isinstance(e, n.Const):
			return repr(e.value)
		if isinstance(e, n.Compare):
			return self._src(e.expr) + ''.join(f' {o.op} {self._src(o.expr)}' for o in e.ops)
		if isinstance(e, n.And):
			return f'({self._src(e.left)} and {self._src(e.right)})'
		if isinstance(e, n.Or):
			return f'({self._src(e.left)} or {self._src(e.right)})'
		if isinstance(e, n.Not):
			return f'not {self._src(e.node)}'
		if isinstance(e, n.Call):
			return f'{self._src(e.node)}({", ".join(self._src(a) for a in e.args)})'
		if isinstance(e, n.List):
			return '[' + ', '.join(self._src(a) for a in e.items) + ']'
		if isinstance(e, n.Getitem):
			return f'{self._src(e.node)}[{self._src(e.arg)}]'
		if isinstance(e, n.Getattr):
			return f'{self._src(e.node)}.{e.attr}'
		if isinstance(e, n.Slice):
			return f'{self._src(e.start) if e.start else ""}:{self._src(e.stop) if e.stop else ""}'
		if isinstance(e, n.Filter):
			return f'{self._src(e.node) if e.node else ""}|{e.name}'
		return type(e).__name__
