"""Tiny linear normal form for integer position arithmetic: an expression built from +, -, unary -, integer constants and opaque atoms
(names, attributes, subscripts, calls) becomes ({atom text: coefficient}, constant). Two spellings of the same offset computation
(`b + (e - b)` and `e`) get the same normal form; anything non-linear is one opaque atom."""
from __future__ import annotations

import ast

from vlib.srcindex import unparse

Linear = tuple[dict[str, int], int]


def linear(e: ast.AST) -> Linear:
	if isinstance(e, ast.Constant) and isinstance(e.value, int) and not isinstance(e.value, bool):
		return {}, e.value
	if isinstance(e, ast.UnaryOp) and isinstance(e.op, ast.USub):
		t, c = linear(e.operand)
		return {k: -v for k, v in t.items()}, -c
	if isinstance(e, ast.UnaryOp) and isinstance(e.op, ast.UAdd):
		return linear(e.operand)
	if isinstance(e, ast.BinOp) and isinstance(e.op, (ast.Add, ast.Sub)):
		lt, lc = linear(e.left)
		rt, rc = linear(e.right)
		sign = 1 if isinstance(e.op, ast.Add) else -1
		out = dict(lt)
		for k, v in rt.items():
			out[k] = out.get(k, 0) + sign * v
		return {k: v for k, v in out.items() if v != 0}, lc + sign * rc
	return {unparse(e): 1}, 0


def same(a: ast.AST, b: ast.AST) -> bool:
	return linear(a) == linear(b)


def is_atom_plus(e: ast.AST, const: int) -> str | None:
	"""the single atom A when e normalises to A + const, else None"""
	t, c = linear(e)
	if c == const and len(t) == 1 and list(t.values()) == [1]:
		return next(iter(t))
	return None
