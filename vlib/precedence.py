"""Operator precedence oracles: CPython's own tables (read from the stdlib at check time, cross-checked against a frozen
copy) and the frozen ISO C++ table."""
from __future__ import annotations

import ast

from vlib.core import AnalysisError

# frozen copy of CPython's precedence per operator token (binary/unary/compare/bool/ternary/walrus/lambda), loose -> tight
_FROZEN_PY = {
	':=': 1, 'lambda': 4, 'if-else': 4, 'or': 5, 'and': 6, 'not': 7,
	'<': 8, '>': 8, '==': 8, '>=': 8, '<=': 8, '!=': 8, 'in': 8, 'not in': 8, 'is': 8, 'is not': 8,
	'|': 9, '^': 10, '&': 11, '<<': 12, '>>': 12, 'b+': 13, 'b-': 13, '*': 14, '@': 14, '/': 14, '%': 14, '//': 14,
	'u+': 15, 'u-': 15, 'u~': 15, '**': 16, 'await': 17,
}


def python_precedence() -> dict[str, int]:
	"""token -> precedence level (higher binds tighter); binary +/- are 'b+','b-', unary are 'u+','u-','u~'"""
	P = getattr(ast, '_Precedence', None)
	U = getattr(ast, '_Unparser', None)
	if P is None or U is None:
		return dict(_FROZEN_PY)
	out: dict[str, int] = {}
	for tok, prec in U.binop_precedence.items():
		out[{'+': 'b+', '-': 'b-'}.get(tok, tok)] = int(prec)
	for tok, prec in U.unop_precedence.items():
		out[tok if tok == 'not' else 'u' + tok] = int(prec)
	for tok in U.cmpops.values():
		out[tok] = int(P.CMP)
	for tok, prec in U.boolop_precedence.items():
		out[tok] = int(prec)
	out['if-else'] = int(P.TEST)
	out['lambda'] = int(P.TEST)
	out[':='] = int(P.NAMED_EXPR)
	out['await'] = int(P.AWAIT)
	# cross-check with the frozen copy: relative order must agree on the common tokens
	common = sorted(set(out) & set(_FROZEN_PY))
	for a in common:
		for b in common:
			if (out[a] < out[b]) != (_FROZEN_PY[a] < _FROZEN_PY[b]) or (out[a] == out[b]) != (_FROZEN_PY[a] == _FROZEN_PY[b]):
				raise AnalysisError(f'CPython precedence tables disagree with the frozen copy on ({a}, {b})')
	return out


# ISO C++ (cppreference "C++ Operator Precedence"), expressed as binding strength: higher binds tighter
CPP_PREC = {
	'postfix': 16,
	'u!': 15, 'u~': 15, 'u+': 15, 'u-': 15, 'u++': 15, 'u--': 15, 'u*': 15, 'u&': 15,
	'.*': 14, '->*': 14,
	'*': 13, '/': 13, '%': 13,
	'+': 12, '-': 12,
	'<<': 11, '>>': 11,
	'<=>': 10,
	'<': 9, '<=': 9, '>': 9, '>=': 9,
	'==': 8, '!=': 8,
	'&': 7, '^': 6, '|': 5, '&&': 4, '||': 3,
	'?:': 2, '=': 2, '+=': 2, '-=': 2,
	',': 1,
}
CPP_RIGHT_ASSOC = {'?:', '=', '+=', '-=', 'u!', 'u~', 'u+', 'u-', 'u++', 'u--'}
# two adjacent characters that lex as one C++ token when a prefix operator is pasted to an operand starting with an operator
CPP_PASTE = {'++', '--', '&&', '||', '<<', '>>', '->', '::', '==', '!=', '<=', '>=', '+=', '-=', '*=', '/=', '|=', '&=', '^=', '%='}
