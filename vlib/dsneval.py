"""Tiny evaluator for pure predicates over a dotted name (`via.tokens`): the expressions DeclableMatcher and friends build from DSN.elements /
elem_counts / left / right / root, len(), slices, comparisons and boolean operators, with locals bound once (star-destructuring included).
Calls of `DSN.<f>(...)` are evaluated from the SOURCE of rogw/tranp/dsn/dsn.py (straight-line bodies, `if <test>: return`, single-name
assignments, list comprehensions, str.split / count / startswith / join), so a re-spelling of DSN changes nothing here and a change of its
meaning is followed. Anything outside this subset evaluates to UNKNOWN, which callers must treat as "not evaluated", never as a verdict."""
from __future__ import annotations

import ast

from vlib.srcindex import unparse

UNKNOWN = object()
RAISES = object()  # the evaluated expression raises (a ValueError of int() / float()): a definite outcome, not an unknown one
MAX_DEPTH = 12


def call_function(cls_info, name: str, args: list, kwargs: dict, depth: int, extra_env: dict | None = None, bound_self: bool = False):
	"""value of the pure class method cls_info.<name>(*args, **kwargs)"""
	f = cls_info.method(name) if cls_info is not None else None
	if f is None or depth > MAX_DEPTH or any(a is UNKNOWN for a in args) or any(v is UNKNOWN for v in kwargs.values()):
		return UNKNOWN
	a = f.node.args
	params = [x.arg for x in a.posonlyargs + a.args]
	if params and params[0] in ('cls', 'self'):
		params = params[1:]
	defaults = dict(zip(params[len(params) - len(a.defaults):], a.defaults)) if a.defaults else {}
	env: dict[str, object] = dict(extra_env or {})  # e.g. {'self.cause_line': 'x' * 20}: attribute reads the caller fixes
	rest = list(args)
	for p_ in params:
		if rest:
			env[p_] = rest.pop(0)
		elif p_ in kwargs:
			env[p_] = kwargs[p_]
		elif p_ in defaults and isinstance(defaults[p_], ast.Constant):
			env[p_] = defaults[p_].value
		else:
			return UNKNOWN
	if a.vararg is not None:
		env[a.vararg.arg] = rest
	elif rest:
		return UNKNOWN
	for kw, dv in zip(a.kwonlyargs, a.kw_defaults):
		env[kw.arg] = kwargs[kw.arg] if kw.arg in kwargs else (dv.value if isinstance(dv, ast.Constant) else UNKNOWN)

	def run(body):
		for st in body:
			if isinstance(st, ast.Expr) and isinstance(st.value, ast.Constant):
				continue
			if isinstance(st, ast.Return):
				return ('ret', _ev(f.node, st.value, env, depth + 1, cls_info, True) if st.value is not None else None)
			if isinstance(st, (ast.Assign, ast.AnnAssign)) and st.value is not None:
				tgt = st.targets[0] if isinstance(st, ast.Assign) else st.target
				v_ = _ev(f.node, st.value, env, depth + 1, cls_info, True)
				if isinstance(tgt, ast.Name):
					env[tgt.id] = v_
					continue
				if isinstance(tgt, (ast.Tuple, ast.List)) and isinstance(v_, (list, tuple)) and sum(isinstance(x, ast.Starred) for x in tgt.elts) == 1 and all(isinstance(x.value if isinstance(x, ast.Starred) else x, ast.Name) for x in tgt.elts):
					star = next(i for i, x in enumerate(tgt.elts) if isinstance(x, ast.Starred))
					after = len(tgt.elts) - star - 1
					if len(v_) < star + after:
						return ('ret', UNKNOWN)  # would raise
					vals = list(v_)
					for i, x in enumerate(tgt.elts):
						if i < star:
							env[x.id] = vals[i]
						elif i == star:
							env[x.value.id] = vals[star:len(vals) - after]
						else:
							env[x.id] = vals[len(vals) - (len(tgt.elts) - i)]
					continue
				if isinstance(tgt, (ast.Tuple, ast.List)) and all(isinstance(x, ast.Name) for x in tgt.elts) and isinstance(v_, (list, tuple)):
					if len(v_) != len(tgt.elts):
						return ('ret', UNKNOWN)  # would raise
					for x, item in zip(tgt.elts, v_):
						env[x.id] = item
					continue
				return ('ret', UNKNOWN)
			if isinstance(st, ast.If):
				t = _ev(f.node, st.test, env, depth + 1, cls_info, True)
				if t is UNKNOWN:
					return ('ret', UNKNOWN)
				out = run(st.body if t else st.orelse)
				if out is not None:
					return out
				continue
			return ('ret', UNKNOWN)
		return None
	out = run(f.node.body)
	return out[1] if out is not None else None


def evaluate(fn_node: ast.AST, e: ast.AST, env: dict[str, object], dsn_cls=None, depth: int = 0):
	"""value of e (an expression of the function fn_node) with the source texts in env (`via.tokens` -> 'self.a.b') bound; a local name stands for the
	value it is bound to exactly once in fn_node; UNKNOWN when anything else is consulted"""
	return _ev(fn_node, e, env, depth, dsn_cls, False)


def _ev(fn_node: ast.AST, e: ast.AST, env: dict[str, object], depth: int, dsn_cls, local: bool):
	own_method_cls = dsn_cls if local else None

	def ev(x: ast.AST):
		return _ev(fn_node, x, env, depth + 1, dsn_cls, local)

	if depth > MAX_DEPTH:
		return UNKNOWN
	if not local or isinstance(e, (ast.Attribute, ast.Call)):
		src = unparse(e)
		if src in env:
			return env[src]
		# `<object>.<property>` where the caller described the object: {'__objects__': {'node': (ClassInfo, {'tokens': '12'})}}
		objs = env.get('__objects__') if isinstance(env, dict) else None
		if isinstance(e, ast.Attribute) and isinstance(e.value, ast.Name) and objs and e.value.id in objs:
			cls_o, attrs_o = objs[e.value.id]
			if e.attr in attrs_o:
				return attrs_o[e.attr]
			g_ = None
			cur_ = cls_o
			seen_ = 0
			while cur_ is not None and g_ is None and seen_ < 8:
				g_ = cur_.method(e.attr)
				cur_ = cur_.bases_resolved[0] if getattr(cur_, 'bases_resolved', None) else None
				seen_ += 1
			if g_ is not None and g_.is_property:
				return call_function(g_.cls, e.attr, [], {}, depth + 1, {'__objects__': {'self': (cls_o, attrs_o)}, **{f'self.{k}': v for k, v in attrs_o.items()}}, bound_self=True)
	if isinstance(e, ast.Constant):
		return e.value
	if isinstance(e, ast.Name):
		if local:
			return env.get(e.id, UNKNOWN)
		# a local bound exactly once: plain, or one target of a (star-)destructuring assignment
		defs = [a for a in ast.walk(fn_node) if isinstance(a, (ast.Assign, ast.AnnAssign)) and a.value is not None and any(isinstance(x, ast.Name) and x.id == e.id for t in (a.targets if isinstance(a, ast.Assign) else [a.target]) for x in ast.walk(t))]
		if len(defs) != 1:
			return UNKNOWN
		tgt = defs[0].targets[0] if isinstance(defs[0], ast.Assign) else defs[0].target
		val = ev(defs[0].value)
		if isinstance(tgt, ast.Name):
			return val
		if isinstance(tgt, (ast.Tuple, ast.List)) and isinstance(val, (list, tuple)):
			elts = tgt.elts
			star = next((i for i, x in enumerate(elts) if isinstance(x, ast.Starred)), None)
			if star is None:
				if len(elts) != len(val):
					return UNKNOWN  # would raise
				return next((v for x, v in zip(elts, val) if isinstance(x, ast.Name) and x.id == e.id), UNKNOWN)
			after = len(elts) - star - 1
			if len(val) < star + after:
				return UNKNOWN  # would raise
			for i, x in enumerate(elts):
				name = x.value.id if isinstance(x, ast.Starred) and isinstance(x.value, ast.Name) else x.id if isinstance(x, ast.Name) else None
				if name != e.id:
					continue
				if i < star:
					return val[i]
				if i == star:
					return list(val[star:len(val) - after])
				return val[len(val) - (len(elts) - i)]
		return UNKNOWN
	if isinstance(e, ast.BoolOp):
		vals = [ev(v) for v in e.values]
		if isinstance(e.op, ast.And):
			if any(v is not UNKNOWN and not v for v in vals):
				return False
			return UNKNOWN if any(v is UNKNOWN for v in vals) else bool(all(vals))
		if any(v is not UNKNOWN and v for v in vals):
			return True
		return UNKNOWN if any(v is UNKNOWN for v in vals) else False
	if isinstance(e, ast.IfExp):
		t = ev(e.test)
		return UNKNOWN if t is UNKNOWN else ev(e.body if t else e.orelse)
	if isinstance(e, ast.JoinedStr):
		out = ''
		for part in e.values:
			if isinstance(part, ast.Constant):
				out += str(part.value)
			elif isinstance(part, ast.FormattedValue) and part.format_spec is None and part.conversion in (-1, 115):
				v = ev(part.value)
				if v is UNKNOWN or v is RAISES or not isinstance(v, (str, int)) or isinstance(v, bool):
					return UNKNOWN
				out += str(v)
			else:
				return UNKNOWN
		return out
	if isinstance(e, ast.UnaryOp) and isinstance(e.op, ast.Not):
		v = ev(e.operand)
		return UNKNOWN if v is UNKNOWN else (not v)
	if isinstance(e, ast.UnaryOp) and isinstance(e.op, ast.USub):
		v = ev(e.operand)
		return -v if isinstance(v, int) else UNKNOWN
	if isinstance(e, ast.BinOp) and isinstance(e.op, (ast.Add, ast.Sub)):
		l_, r_ = ev(e.left), ev(e.right)
		if l_ is UNKNOWN or r_ is UNKNOWN:
			return UNKNOWN
		try:
			return l_ + r_ if isinstance(e.op, ast.Add) else l_ - r_
		except Exception:
			return UNKNOWN
	if isinstance(e, ast.Compare):
		left = ev(e.left)
		for op, rhs in zip(e.ops, e.comparators):
			right = ev(rhs)
			if left is UNKNOWN or right is UNKNOWN:
				return UNKNOWN
			try:
				ok = {ast.Eq: lambda a, b: a == b, ast.NotEq: lambda a, b: a != b, ast.Lt: lambda a, b: a < b, ast.LtE: lambda a, b: a <= b, ast.Gt: lambda a, b: a > b, ast.GtE: lambda a, b: a >= b,
					ast.In: lambda a, b: a in b, ast.NotIn: lambda a, b: a not in b, ast.Is: lambda a, b: a is b, ast.IsNot: lambda a, b: a is not b}[type(op)](left, right)
			except Exception:
				return UNKNOWN
			if not ok:
				return False
			left = right
		return True
	if isinstance(e, (ast.List, ast.Tuple)):
		vals = []
		for v in e.elts:
			if isinstance(v, ast.Starred):
				inner = ev(v.value)
				if inner is UNKNOWN or not isinstance(inner, (list, tuple)):
					return UNKNOWN
				vals.extend(inner)
			else:
				vals.append(ev(v))
		return UNKNOWN if any(v is UNKNOWN for v in vals) else vals
	if isinstance(e, (ast.ListComp, ast.GeneratorExp)) and len(e.generators) == 1 and isinstance(e.generators[0].target, ast.Name) and local:
		g = e.generators[0]
		seq = ev(g.iter)
		if seq is UNKNOWN or not isinstance(seq, (list, tuple, str)):
			return UNKNOWN
		out = []
		saved = env.get(g.target.id, UNKNOWN)
		for item in seq:
			env[g.target.id] = item
			conds = [ev(c) for c in g.ifs]
			if any(c is UNKNOWN for c in conds):
				return UNKNOWN
			if all(conds):
				v = ev(e.elt)
				if v is UNKNOWN:
					return UNKNOWN
				out.append(v)
		if saved is UNKNOWN:
			env.pop(g.target.id, None)
		else:
			env[g.target.id] = saved
		return out
	if isinstance(e, ast.Subscript):
		base = ev(e.value)
		if base is UNKNOWN or not isinstance(base, (list, str, tuple)):
			return UNKNOWN
		if isinstance(e.slice, ast.Slice):
			parts = [ev(p) if p is not None else None for p in (e.slice.lower, e.slice.upper, e.slice.step)]
			if any(p is UNKNOWN for p in parts):
				return UNKNOWN
			return base[slice(*parts)]
		i = ev(e.slice)
		if not isinstance(i, int) or not (-len(base) <= i < len(base)):
			return UNKNOWN
		return base[i]
	if isinstance(e, ast.Call):
		fn = unparse(e.func)
		args = []
		for a in e.args:
			if isinstance(a, ast.Starred):
				inner = ev(a.value)
				if inner is UNKNOWN or not isinstance(inner, (list, tuple)):
					return UNKNOWN
				args.extend(inner)
			else:
				args.append(ev(a))
		kwargs = {kw.arg: ev(kw.value) for kw in e.keywords if kw.arg}
		if any(kw.arg is None for kw in e.keywords) or any(a is UNKNOWN for a in args) or any(v is UNKNOWN for v in kwargs.values()):
			return UNKNOWN
		if (fn.startswith('DSN.') or (local and fn.startswith('cls.'))) and dsn_cls is not None:
			return call_function(dsn_cls, fn.split('.', 1)[1], args, kwargs, depth + 1)
		if fn == 'len' and len(args) == 1 and isinstance(args[0], (list, str, tuple)) and not kwargs:
			return len(args[0])
		if isinstance(e.func, ast.Attribute) and e.func.attr in ('startswith', 'endswith', 'count', 'split', 'rsplit', 'join', 'partition', 'rpartition', 'strip', 'rstrip', 'lstrip', 'removesuffix', 'removeprefix', 'find', 'rfind', 'index', 'isdigit', 'isdecimal', 'isnumeric', 'lower', 'upper', 'casefold', 'replace') and len(args) <= 2 and not kwargs:
			recv = ev(e.func.value)
			if isinstance(recv, str):
				try:
					out = getattr(recv, e.func.attr)(*args)
				except Exception:
					return UNKNOWN
				return list(out) if isinstance(out, tuple) else out
		if fn == 'range' and 1 <= len(args) <= 3 and not kwargs and all(isinstance(a, int) and not isinstance(a, bool) and abs(a) <= 64 for a in args):
			try:
				return list(range(*args))
			except ValueError:
				return RAISES
		if fn == 'bool' and len(args) == 1 and not kwargs and isinstance(args[0], (str, int, list, tuple)):
			return bool(args[0])
		if fn in ('reversed', 'list', 'tuple') and len(args) == 1 and not kwargs and isinstance(args[0], (list, tuple)):
			return list(reversed(args[0])) if fn == 'reversed' else list(args[0])
		if fn in ('max', 'min') and len(args) >= 2 and not kwargs and all(isinstance(a, int) for a in args):
			return max(args) if fn == 'max' else min(args)
		if fn in ('int', 'float') and args and isinstance(args[0], (str, int, float)) and set(kwargs) <= {'base'}:
			try:
				if fn == 'float':
					return float(args[0]) if len(args) == 1 and not kwargs else UNKNOWN
				base = kwargs.get('base', args[1] if len(args) > 1 else None)
				return int(args[0]) if base is None else int(args[0], base)
			except Exception:
				return RAISES
		if (local and fn.startswith(('self.', 'cls.'))) and own_method_cls is not None:
			return call_function(own_method_cls, fn.split('.', 1)[1], args, kwargs, depth + 1, {k: v for k, v in env.items() if not k.isidentifier()})
		if not local and fn.startswith(('self.', 'cls.')) and fn.count('.') == 1 and dsn_cls is not None and dsn_cls.method(fn.split('.', 1)[1]) is not None:
			# a method of the class under evaluation, called from the function the caller handed in: its attribute reads come from the caller's env
			return call_function(dsn_cls, fn.split('.', 1)[1], args, kwargs, depth + 1, {k: v for k, v in env.items() if not k.isidentifier()})
		if isinstance(e.func, ast.Attribute) and e.func.attr == 'format' and not kwargs:
			recv = ev(e.func.value)
			if isinstance(recv, str) and all(isinstance(a, (str, int)) and not isinstance(a, bool) for a in args) and recv.count('{}') == len(args) and recv.count('{') == len(args) and recv.count('}') == len(args):
				return recv.format(*args)
			return UNKNOWN
		if fn == 'os.path.join' and args and all(isinstance(a, str) for a in args) and not kwargs:
			import posixpath
			return posixpath.join(*args)
		if fn in ('os.path.abspath', 'os.path.normpath') and len(args) == 1 and isinstance(args[0], str) and args[0].startswith('/') and not kwargs:
			import posixpath
			return posixpath.normpath(args[0])
		return UNKNOWN
	return UNKNOWN
