"""Structural matching helpers that are insensitive to local renames, temporaries, helper extraction and if/else vs early-return form."""
from __future__ import annotations

import ast

from vlib.flow import parent_map
from vlib.guards import always_exits
from vlib.norm import Expander, helper_closure
from vlib.srcindex import FuncInfo, attr_chain, const_str, unparse, walk_no_nested

_XCACHE: dict[int, ast.AST] = {}


_PM_CACHE: dict[int, tuple] = {}


def _pm(root: ast.AST) -> dict[int, ast.AST]:
	"""parent map, memoised per tree object. The trees handed to the fact functions are the cached X()/FI() copies or function nodes of the source index,
	which are not edited after their first analysis (merged_function / split_tuple_assigns edit their own fresh copy before returning it)."""
	hit = _PM_CACHE.get(id(root))
	if hit is None or hit[0] is not root:
		hit = (root, parent_map(root))
		_PM_CACHE[id(root)] = hit
	return hit[1]



def X(func: FuncInfo) -> ast.AST:
	"""alias-expanded copy of the function definition"""
	if id(func) not in _XCACHE:
		_XCACHE[id(func)] = Expander(func).expand(func.node)
	return _XCACHE[id(func)]


def closure(func: FuncInfo, depth: int = 2) -> list[ast.AST]:
	"""alias-expanded bodies of func and of the private helpers / nested functions it calls"""
	return [X(f) for f in helper_closure(func, depth)]


def nodes(roots, kind=None):
	roots = roots if isinstance(roots, list) else [roots]
	for r in roots:
		for n in ast.walk(r):
			if kind is None or isinstance(n, kind):
				yield n


def calls(roots, suffix: str | tuple) -> list[ast.Call]:
	"""calls whose dotted callee name ends with one of the suffixes (private-name prefixes are ignored: `self.__x` matches '__x')"""
	suf = (suffix,) if isinstance(suffix, str) else suffix
	out = []
	for n in nodes(roots, ast.Call):
		name = attr_chain(n.func) or (n.func.attr if isinstance(n.func, ast.Attribute) else '')
		if name and any(name == s or name.endswith('.' + s) or name.endswith(s) for s in suf):
			out.append(n)
	return out


def has_call(roots, suffix) -> bool:
	return bool(calls(roots, suffix))


def path_conditions(func_node: ast.AST, target: ast.AST) -> list[tuple[ast.AST, bool]]:
	"""conditions known to hold when `target` executes: enclosing if/elif/else and while tests, conditional-expression tests, and negated
	tests of earlier sibling guards whose body always exits (`if c: return ...` before the statement)"""
	pm = _pm(func_node)
	out: list[tuple[ast.AST, bool]] = []
	cur = target
	while id(cur) in pm:
		par = pm[id(cur)]
		if isinstance(par, ast.If):
			if any(cur is s for s in par.body):
				out.append((par.test, True))
			elif any(cur is s for s in par.orelse):
				out.append((par.test, False))
		elif isinstance(par, ast.IfExp):
			if cur is par.body:
				out.append((par.test, True))
			elif cur is par.orelse:
				out.append((par.test, False))
		elif isinstance(par, ast.While) and any(cur is s for s in par.body):
			out.append((par.test, True))
		elif isinstance(par, ast.BoolOp):
			# short circuit: a later operand is evaluated only when the earlier ones were all true (and) / all false (or)
			for v in par.values:
				if v is cur:
					break
				out.append((v, isinstance(par.op, ast.And)))
		elif isinstance(par, (ast.ListComp, ast.SetComp, ast.GeneratorExp, ast.DictComp)) and not any(cur is g for g in par.generators):
			for g in par.generators:
				for i in g.ifs:
					out.append((i, True))
		# earlier sibling guards in the same block
		for field in ('body', 'orelse', 'finalbody'):
			block = getattr(par, field, None)
			if isinstance(block, list) and any(cur is s for s in block):
				for s in block:
					if s is cur:
						break
					if isinstance(s, ast.If):
						# if/elif chain: the tests of the leading arms whose bodies always exit are false afterwards
						arm = s
						while isinstance(arm, ast.If) and always_exits(arm.body):
							out.append((arm.test, False))
							arm = arm.orelse[0] if len(arm.orelse) == 1 and isinstance(arm.orelse[0], ast.If) else None
						if isinstance(arm, ast.If) and arm is s and s.orelse and always_exits(s.orelse):
							out.append((s.test, True))
		if isinstance(par, (ast.FunctionDef, ast.AsyncFunctionDef, ast.Lambda)):
			break
		cur = par
	# drop facts about variables that are re-assigned between the test and the target (the walk above is otherwise flow-insensitive)
	hi = (getattr(target, 'lineno', 0), getattr(target, 'col_offset', 0))
	own_stmt = target
	while not isinstance(own_stmt, ast.stmt) and id(own_stmt) in pm:
		own_stmt = pm[id(own_stmt)]
	fresh = []
	for t, pol in out:
		lo = (getattr(t, 'end_lineno', None) or getattr(t, 'lineno', 0), getattr(t, 'end_col_offset', None) or 0)
		if hasattr(t, 'lineno') and lo < hi and _killed(func_node, t, lo, hi, own_stmt):
			continue
		fresh.append((t, pol))
	return fresh


_ST_CACHE: dict[int, tuple] = {}


def _stores(root: ast.AST) -> list[ast.Name]:
	hit = _ST_CACHE.get(id(root))
	if hit is None or hit[0] is not root:
		hit = (root, [n for n in ast.walk(root) if isinstance(n, ast.Name) and isinstance(n.ctx, (ast.Store, ast.Del))])
		_ST_CACHE[id(root)] = hit
	return hit[1]


def _killed(func_node: ast.AST, test: ast.AST, lo: tuple[int, int], hi: tuple[int, int], own_stmt: ast.AST | None) -> bool:
	"""a variable read by `test` is re-bound between the point where the test was evaluated (lo) and the program point of interest (hi): the fact is stale.
	Targets of the simple statement that contains the point of interest are bound after its value is evaluated and do not count."""
	names = {n.id for n in ast.walk(test) if isinstance(n, ast.Name)}
	if not names:
		return False
	own = {id(x) for x in ast.walk(own_stmt)} if isinstance(own_stmt, (ast.Assign, ast.AugAssign, ast.AnnAssign)) else set()
	pm = _pm(func_node)

	def chain(x: ast.AST) -> list[ast.AST]:
		out = [x]
		while id(out[-1]) in pm:
			out.append(pm[id(out[-1])])
		return out

	tchain = chain(own_stmt) if own_stmt is not None else []
	tids = {id(x): i for i, x in enumerate(tchain)}
	for n in _stores(func_node):
		if n.id in names and lo < (n.lineno, n.col_offset) < hi and id(n) not in own:
			# a store in the other arm of an if statement that also contains the point of interest is not on the path
			sch = chain(n)
			exclusive = False
			for j, a in enumerate(sch):
				if id(a) in tids and isinstance(a, ast.If) and j > 0 and tids[id(a)] > 0:
					s_child, t_child = sch[j - 1], tchain[tids[id(a)] - 1]
					s_in_body = any(s_child is x for x in a.body)
					t_in_body = any(t_child is x for x in a.body)
					s_in_else = any(s_child is x for x in a.orelse)
					t_in_else = any(t_child is x for x in a.orelse)
					if (s_in_body and t_in_else) or (s_in_else and t_in_body):
						exclusive = True
					break
				if id(a) in tids:
					break
			if not exclusive:
				return True
	return False


def conjuncts(test: ast.AST, polarity: bool) -> list[tuple[ast.AST, bool]]:
	"""atomic facts implied by (test == polarity)"""
	if isinstance(test, ast.UnaryOp) and isinstance(test.op, ast.Not):
		return conjuncts(test.operand, not polarity)
	if isinstance(test, ast.BoolOp):
		if (isinstance(test.op, ast.And) and polarity) or (isinstance(test.op, ast.Or) and not polarity):
			out = []
			for v in test.values:
				out.extend(conjuncts(v, polarity))
			return out
		return [(test, polarity)]
	return [(test, polarity)]


def atoms(func_node: ast.AST, target: ast.AST) -> list[tuple[ast.AST, bool]]:
	"""atomic conditions (with truth value) known at target; a Name bound once to a condition stands for that condition"""
	out: list[tuple[ast.AST, bool]] = []

	def add(a: ast.AST, p: bool, depth: int) -> None:
		if isinstance(a, ast.Name) and depth < 4:
			d = deref(func_node, a)
			if d is not a:
				for a2, p2 in conjuncts(d, p):
					add(a2, p2, depth + 1)
				return
		if isinstance(a, ast.Compare) and len(a.ops) == 1 and isinstance(a.ops[0], (ast.NotIn, ast.NotEq, ast.IsNot)):
			flipped = {ast.NotIn: ast.In, ast.NotEq: ast.Eq, ast.IsNot: ast.Is}[type(a.ops[0])]()
			a = ast.Compare(left=a.left, ops=[flipped], comparators=a.comparators)
			p = not p
		out.append((a, p))

	for t, pol in path_conditions(func_node, target):
		for a, p in conjuncts(t, pol):
			add(a, p, 0)
	return out


def facts(func_node: ast.AST, target: ast.AST) -> list[tuple[str, bool]]:
	"""(source of atomic condition, truth) known at target"""
	return [(unparse(a), p) for a, p in atoms(func_node, target)]


def deref(fn_node: ast.AST, e: ast.AST, depth: int = 4) -> ast.AST:
	"""a Name bound exactly once in the function (plain or annotated assignment) stands for the assigned expression"""
	while isinstance(e, ast.Name) and depth > 0:
		stores = [n for n in ast.walk(fn_node) if isinstance(n, ast.Name) and n.id == e.id and isinstance(n.ctx, (ast.Store, ast.Del))]
		defs = [n for n in ast.walk(fn_node) if isinstance(n, (ast.Assign, ast.AnnAssign)) and n.value is not None
			and any(isinstance(t, ast.Name) and t.id == e.id for t in (n.targets if isinstance(n, ast.Assign) else [n.target]))]
		if len(stores) != 1 or len(defs) != 1:
			return e
		e = defs[0].value
		depth -= 1
	return e


_FICACHE: dict[int, ast.AST] = {}


def FI(func: FuncInfo) -> ast.AST:
	"""copy of the function with every single-assignment local replaced by its defining expression (for matching only: evaluation order is not preserved)"""
	if id(func) not in _FICACHE:
		_FICACHE[id(func)] = Expander(func, extra_pure=lambda v: True).expand(func.node)
	return _FICACHE[id(func)]


def closure_fi(func: FuncInfo, depth: int = 2) -> list[ast.AST]:
	return [FI(f) for f in helper_closure(func, depth)]


def concat_parts(e: ast.AST) -> list[tuple[str, object]]:
	"""an f-string or a `+` chain as [('const', text) | ('expr', node)], adjacent constants merged"""
	out: list[tuple[str, object]] = []

	def add(kind, v):
		if kind == 'const' and out and out[-1][0] == 'const':
			out[-1] = ('const', str(out[-1][1]) + str(v))
		else:
			out.append((kind, v))

	def rec(x):
		if isinstance(x, ast.JoinedStr):
			for v in x.values:
				if isinstance(v, ast.Constant):
					add('const', v.value)
				elif isinstance(v, ast.FormattedValue) and v.format_spec is None and v.conversion == -1:
					rec(v.value)
				else:
					add('expr', v)
		elif isinstance(x, ast.BinOp) and isinstance(x.op, ast.Add):
			rec(x.left)
			rec(x.right)
		elif isinstance(x, ast.Constant) and isinstance(x.value, str):
			add('const', x.value)
		elif isinstance(x, ast.Call) and isinstance(x.func, ast.Attribute) and x.func.attr == 'join' and isinstance(x.func.value, ast.Constant) and isinstance(x.func.value.value, str) \
				and len(x.args) == 1 and isinstance(x.args[0], (ast.List, ast.Tuple)) and not x.keywords and not any(isinstance(v, ast.Starred) for v in x.args[0].elts):
			# `': '.join([a, b])` is a + ': ' + b
			for i, v in enumerate(x.args[0].elts):
				if i:
					add('const', x.func.value.value)
				rec(v)
		else:
			add('expr', x)
	rec(e)
	return out


def facts_through(func: FuncInfo, target_fn: ast.AST, target: ast.AST, depth: int = 2) -> list[tuple[str, bool]]:
	"""facts at target inside target_fn (a member of closure(func)) plus, when target_fn is a helper, the facts at its call sites in the other members"""
	out = list(facts(target_fn, target))
	name = getattr(target_fn, 'name', None)
	for fn in closure(func, depth):
		if fn is target_fn or name is None:
			continue
		for c in calls(fn, name):
			out.extend(facts(fn, c))
	return out


def guarded_through(members: list[FuncInfo], g: FuncInfo, node: ast.AST, try_pred, depth: int = 0) -> bool:
	"""node (inside g) is enclosed by a try satisfying try_pred in g itself, or every call of g from the other members is (transitively)"""
	from vlib.flow import enclosing_tries
	pm = parent_map(g.node)
	if any(try_pred(t) for t in enclosing_tries(node, pm)):
		return True
	if depth > 2:
		return False
	sites = [(h, c) for h in members if h is not g for c in walk_no_nested(h.node)
		if isinstance(c, ast.Call) and ((isinstance(c.func, ast.Attribute) and c.func.attr == g.name) or (isinstance(c.func, ast.Name) and c.func.id == g.name))]
	return bool(sites) and all(guarded_through(members, h, c, try_pred, depth + 1) for h, c in sites)


def inlined_bodies(func: FuncInfo, depth: int = 2) -> list[ast.AST]:
	"""the alias-expanded body of func plus, for each call of a same-class private helper or sibling nested function, the helper's body with
	its parameters replaced by the call's arguments (so that reads inside an extracted helper are seen in the caller's terms)"""
	import copy
	out = [X(func)]
	work = [(func, X(func), 0)]
	seen = {id(func)}
	while work:
		f, fx, d = work.pop()
		if d >= depth:
			continue
		for c in nodes(fx, ast.Call):
			g = None
			if isinstance(c.func, ast.Attribute) and isinstance(c.func.value, ast.Name) and c.func.value.id in ('self', 'cls') and f.cls is not None:
				g = f.cls.method(c.func.attr)
			elif isinstance(c.func, ast.Name):
				g = f.module.functions.get(f'{f.qualname}.<locals>.{c.func.id}')
			if g is None or id(g) in seen:
				continue
			seen.add(id(g))
			params = [a.arg for a in g.node.args.posonlyargs + g.node.args.args]
			if params and params[0] in ('self', 'cls') and isinstance(c.func, ast.Attribute):
				params = params[1:]
			binding: dict[str, ast.AST] = {}
			for p_, a in zip(params, c.args):
				if not isinstance(a, ast.Starred):
					binding[p_] = a
			for kw in c.keywords:
				if kw.arg:
					binding[kw.arg] = kw.value

			class S(ast.NodeTransformer):
				def visit_Name(self, node: ast.Name):
					if isinstance(node.ctx, ast.Load) and node.id in binding:
						return copy.deepcopy(binding[node.id])
					return node
			gx = S().visit(copy.deepcopy(X(g)))
			out.append(gx)
			work.append((g, gx, d + 1))
	return out


def reaching_def(fn_node: ast.AST, use: ast.Name) -> ast.AST | None:
	"""the value of the latest plain assignment to use.id that textually precedes the use and whose block encloses it (a cheap reaching
	definition for straight-line code; None when the name is a parameter, a loop target, or assigned only later)"""
	pm = _pm(fn_node)
	anc = set()
	cur: ast.AST = use
	while id(cur) in pm:
		cur = pm[id(cur)]
		anc.add(id(cur))
	best = None
	for n in ast.walk(fn_node):
		if not isinstance(n, (ast.Assign, ast.AnnAssign)) or getattr(n, 'value', None) is None:
			continue
		tgts = n.targets if isinstance(n, ast.Assign) else [n.target]
		if not any(isinstance(t, ast.Name) and t.id == use.id for t in tgts):
			continue
		if (n.lineno, n.col_offset) >= (use.lineno, use.col_offset) or id(pm.get(id(n))) not in anc:
			continue
		if best is None or (n.lineno, n.col_offset) > (best.lineno, best.col_offset):
			best = n
	return best.value if best is not None else None


_MR_CACHE: dict[int, tuple] = {}


def may_reach(fn_node: ast.AST, use: ast.Name) -> list[ast.AST] | None:
	"""the binding statements of use.id that MAY reach the use: the latest dominating one (straight line), every later one in a nested block between
	it and the use (unless in the other arm of the same `if`), and — when the use sits in a loop that the dominating binding is outside of — every
	binding inside that loop (back edge). None when the name has no binding in the function (parameter / global)."""
	cached = _MR_CACHE.get(id(fn_node))
	if cached is None or cached[0] is not fn_node:
		cached = (fn_node, _pm(fn_node), {})
		_MR_CACHE[id(fn_node)] = cached
	pm = cached[1]

	def ancestors(n: ast.AST) -> list[ast.AST]:
		out = []
		while id(n) in pm:
			n = pm[id(n)]
			out.append(n)
		return out

	def binds(n: ast.AST) -> bool:
		if isinstance(n, ast.Assign):
			return any(isinstance(t, ast.Name) and t.id == use.id for tg in n.targets for t in ast.walk(tg))
		if isinstance(n, (ast.AnnAssign, ast.AugAssign)):
			return isinstance(n.target, ast.Name) and n.target.id == use.id and getattr(n, 'value', None) is not None
		if isinstance(n, (ast.For, ast.AsyncFor)):
			return any(isinstance(t, ast.Name) and t.id == use.id for t in ast.walk(n.target))
		if isinstance(n, ast.withitem):
			return n.optional_vars is not None and any(isinstance(t, ast.Name) and t.id == use.id for t in ast.walk(n.optional_vars))
		return False
	all_b = cached[2].get(use.id)
	if all_b is None:
		all_b = [n for n in ast.walk(fn_node) if binds(n)]
		cached[2][use.id] = all_b
	if not all_b:
		return None
	anc_u = ancestors(use)
	anc_ids = {id(a) for a in anc_u}
	pos = lambda n: (n.lineno, n.col_offset) if hasattr(n, 'lineno') else (n.context_expr.lineno, n.context_expr.col_offset)
	before = [n for n in all_b if pos(n) < pos(use) and id(n) not in anc_ids]
	dom = [n for n in before if id(pm.get(id(n))) in anc_ids]
	# an enclosing for loop that binds the name dominates its own body
	dom += [lp for lp in anc_u if isinstance(lp, (ast.For, ast.AsyncFor)) and binds(lp) and not any(use is y for y in ast.walk(lp.iter)) and not any(use is y for y in ast.walk(lp.target))]
	d0 = max(dom, key=pos) if dom else None

	def exclusive(a: ast.AST) -> bool:
		"""a and the use are in different arms of one if / try"""
		anc_a = ancestors(a)
		for x in anc_a:
			if id(x) in anc_ids and isinstance(x, ast.If):
				in_body_a = any(a is s or any(a is y for y in ast.walk(s)) for s in x.body)
				in_body_u = any(any(use is y for y in ast.walk(s)) for s in x.body)
				in_test_u = any(use is y for y in ast.walk(x.test))
				return not in_test_u and in_body_a != in_body_u
			if id(x) in anc_ids:
				return False
		return False
	out = [d0] if d0 is not None else []
	for n in before:
		if n is d0 or (d0 is not None and pos(n) < pos(d0)):
			continue
		if not exclusive(n):
			out.append(n)
	for lp in anc_u:
		if isinstance(lp, (ast.For, ast.While, ast.AsyncFor)):
			if d0 is not None and (d0 is lp or any(lp is x for x in ancestors(d0))):
				continue
			if binds(lp) and lp not in out:
				out.append(lp)
			for n in all_b:
				if n is not lp and any(lp is x for x in ancestors(n)) and n not in out and not exclusive(n):
					out.append(n)
	if d0 is None and not out:
		return None
	return out


def expand_use(fn_node: ast.AST, e: ast.AST, depth: int = 3) -> ast.AST:
	"""copy of e (a node inside fn_node) with every local name replaced by its reaching definition (recursively)"""
	import copy
	if depth <= 0:
		return e
	if isinstance(e, ast.Name):
		v = reaching_def(fn_node, e) if isinstance(e.ctx, ast.Load) else None
		return expand_use(fn_node, v, depth - 1) if v is not None else e
	dup = copy.deepcopy(e)
	orig_of = {id(c): o for o, c in zip(ast.walk(e), ast.walk(dup))}

	class T(ast.NodeTransformer):
		def visit_Name(self, node: ast.Name):
			o = orig_of.get(id(node))
			if o is not None and isinstance(node.ctx, ast.Load):
				v = reaching_def(fn_node, o)
				if v is not None:
					return expand_use(fn_node, v, depth - 1)
			return node
	return T().visit(dup)


def inlined_bodies2(func: FuncInfo, depth: int = 2, full: bool = False) -> list[tuple[ast.AST, list[tuple[ast.AST, ast.Call]]]]:
	"""like inlined_bodies, but each body comes with the chain of call sites [(caller body, call node), ...] (outermost first) through which it is
	reached, so that conditions known at the call sites can be added to the facts inside the helper; full=True uses fully inlined bodies (FI)"""
	import copy
	base = FI if full else X
	root = base(func)
	out: list[tuple[ast.AST, list[tuple[ast.AST, ast.Call]]]] = [(root, [])]
	work = [(func, root, [], 0)]
	seen = {id(func)}
	while work:
		f, fx, chain, d = work.pop()
		if d >= depth:
			continue
		for c in nodes(fx, ast.Call):
			g = None
			if isinstance(c.func, ast.Attribute) and isinstance(c.func.value, ast.Name) and c.func.value.id in ('self', 'cls') and f.cls is not None:
				g = f.cls.method(c.func.attr)
			elif isinstance(c.func, ast.Name):
				g = f.module.functions.get(f'{f.qualname}.<locals>.{c.func.id}')
			if g is None or id(g) in seen:
				continue
			seen.add(id(g))
			params = [a.arg for a in g.node.args.posonlyargs + g.node.args.args]
			if params and params[0] in ('self', 'cls') and isinstance(c.func, ast.Attribute):
				params = params[1:]
			binding: dict[str, ast.AST] = {}
			for p_, a in zip(params, c.args):
				if not isinstance(a, ast.Starred):
					binding[p_] = a
			for kw in c.keywords:
				if kw.arg:
					binding[kw.arg] = kw.value

			class S(ast.NodeTransformer):
				def visit_Name(self, node: ast.Name):
					if isinstance(node.ctx, ast.Load) and node.id in binding:
						return copy.deepcopy(binding[node.id])
					return node
			gx = S().visit(copy.deepcopy(base(g)))
			out.append((gx, chain + [(fx, c)]))
			work.append((g, gx, chain + [(fx, c)], d + 1))
	return out


def atoms_via(body: ast.AST, chain: list[tuple[ast.AST, ast.Call]], node: ast.AST) -> list[tuple[ast.AST, bool]]:
	"""conditions known at node inside an inlined helper body: its own path conditions plus those at every call site on the chain"""
	out = list(atoms(body, node))
	for caller, call in chain:
		out.extend(atoms(caller, call))
	return out


def resolved_returns(func: FuncInfo, depth: int = 2) -> list[ast.AST]:
	"""the valued return expressions of func on its fully inlined body; a return that is just a call of a same-class private helper (or nested
	function) is replaced by that helper's own return expressions, with the helper's parameters substituted by the call arguments"""
	import copy
	out: list[ast.AST] = []
	for n in nodes(FI(func), ast.Return):
		v = n.value
		if v is None:
			continue
		g = None
		if depth > 0 and isinstance(v, ast.Call):
			if isinstance(v.func, ast.Attribute) and isinstance(v.func.value, ast.Name) and v.func.value.id in ('self', 'cls') and func.cls is not None:
				g = func.cls.method(v.func.attr)
				if g is not None and not (g.name.startswith('_') and not g.name.endswith('__')):
					g = None
			elif isinstance(v.func, ast.Name):
				g = func.module.functions.get(f'{func.qualname}.<locals>.{v.func.id}')
		if g is None or g is func:
			out.append(v)
			continue
		params = [a.arg for a in g.node.args.posonlyargs + g.node.args.args]
		if params and params[0] in ('self', 'cls') and isinstance(v.func, ast.Attribute):
			params = params[1:]
		binding = {p_: a for p_, a in zip(params, v.args) if not isinstance(a, ast.Starred)}
		binding.update({kw.arg: kw.value for kw in v.keywords if kw.arg})

		class S(ast.NodeTransformer):
			def visit_Name(self, node: ast.Name):
				if isinstance(node.ctx, ast.Load) and node.id in binding:
					return copy.deepcopy(binding[node.id])
				return node
		for e in resolved_returns(g, depth - 1):
			out.append(S().visit(copy.deepcopy(e)))
	return out


def _fold_predicate(body: list[ast.stmt]) -> ast.AST | None:
	"""the boolean expression a guard-style predicate returns: statements are `if T: return <True|False>` (no else), single-name assignments of
	side-effect-free expressions, and a final `return E`; None for any other shape"""
	import copy
	if not body or not isinstance(body[-1], ast.Return) or body[-1].value is None:
		return None
	expr = copy.deepcopy(body[-1].value)
	for st in reversed(body[:-1]):
		if isinstance(st, ast.If) and not st.orelse and len(st.body) == 1 and isinstance(st.body[0], ast.Return) and isinstance(st.body[0].value, ast.Constant) and isinstance(st.body[0].value.value, bool):
			t = copy.deepcopy(st.test)
			if st.body[0].value.value:
				expr = ast.BoolOp(op=ast.Or(), values=[t, expr])
			else:
				expr = ast.BoolOp(op=ast.And(), values=[ast.UnaryOp(op=ast.Not(), operand=t), expr])
		elif isinstance(st, ast.Assign) and len(st.targets) == 1 and isinstance(st.targets[0], ast.Name) and not any(isinstance(x, (ast.Await, ast.Yield, ast.NamedExpr)) for x in ast.walk(st.value)):
			name, val = st.targets[0].id, st.value

			class S(ast.NodeTransformer):
				def visit_Name(self, n: ast.Name):
					return copy.deepcopy(val) if isinstance(n.ctx, ast.Load) and n.id == name else n
			expr = S().visit(expr)
		else:
			return None
	return ast.fix_missing_locations(ast.copy_location(expr, body[-1]))


def inline_predicates(func: FuncInfo, known: list[tuple[ast.AST, bool]], depth: int = 2) -> list[tuple[ast.AST, bool]]:
	"""a condition that is a call of a same-class helper (or nested function) whose body is a single `return <expr>` stands for that expression with
	the helper's parameters replaced by the call arguments (`cls._enclosed(text, '/')` -> `len(text) >= 2 and text.startswith('/') and text.endswith('/')`)"""
	import copy
	out: list[tuple[ast.AST, bool]] = []
	for a, pol in known:
		g = None
		if depth > 0 and isinstance(a, ast.Call):
			if isinstance(a.func, ast.Attribute) and isinstance(a.func.value, ast.Name) and a.func.value.id in ('self', 'cls') and func.cls is not None:
				g = func.cls.method(a.func.attr)
			elif isinstance(a.func, ast.Name):
				g = func.module.functions.get(f'{func.qualname}.<locals>.{a.func.id}') or func.module.functions.get(a.func.id)
		rets = [n for n in walk_no_nested(g.node) if isinstance(n, ast.Return)] if g is not None else []
		body = [s for s in g.node.body if not (isinstance(s, ast.Expr) and isinstance(s.value, ast.Constant))] if g is not None else []
		if g is not None and len(body) > 1:
			# a predicate written with guards: `if A: return False; x = E; return B` reads `(not A) and B[x := E]`
			folded = _fold_predicate(body)
			if folded is not None:
				rets, body = [ast.Return(value=folded)], [ast.Return(value=folded)]
		if g is None or len(rets) != 1 or len(body) != 1 or rets[0].value is None:
			out.append((a, pol))
			continue
		params = [x.arg for x in g.node.args.posonlyargs + g.node.args.args]
		if params and params[0] in ('self', 'cls') and isinstance(a.func, ast.Attribute):
			params = params[1:]
		binding = {p_: v for p_, v in zip(params, a.args) if not isinstance(v, ast.Starred)}
		binding.update({kw.arg: kw.value for kw in a.keywords if kw.arg})

		class S(ast.NodeTransformer):
			def visit_Name(self, node: ast.Name):
				if isinstance(node.ctx, ast.Load) and node.id in binding:
					return copy.deepcopy(binding[node.id])
				return node
		expr = S().visit(copy.deepcopy(rets[0].value))
		out.extend(inline_predicates(g, conjuncts(expr, pol), depth - 1))
	return out


def inline_simple_calls(func: FuncInfo, e: ast.AST, depth: int = 2) -> ast.AST:
	"""copy of expression e in which every call of a same-class helper (or nested / module function) whose body is a single `return <expr>` is replaced
	by that expression with the helper's parameters substituted by the call arguments (`self._node_dsn(symbol.node)` ->
	`ModuleDSN.full_joined(symbol.node.module_path, symbol.node.full_path)`)"""
	import copy
	if depth <= 0:
		return e

	def helper_of(c: ast.Call):
		g = None
		if isinstance(c.func, ast.Attribute) and isinstance(c.func.value, ast.Name) and c.func.value.id in ('self', 'cls') and func.cls is not None:
			g = func.cls.method(c.func.attr)
		elif isinstance(c.func, ast.Name):
			g = func.module.functions.get(f'{func.qualname}.<locals>.{c.func.id}') or func.module.functions.get(c.func.id)
		if g is None:
			return None
		body = [s_ for s_ in g.node.body if not (isinstance(s_, ast.Expr) and isinstance(s_.value, ast.Constant))]
		if len(body) > 1:
			folded = _fold_predicate(body)  # `if A: return False; return B` stands for `(not A) and B`
			return (g, folded) if folded is not None else None
		if len(body) != 1 or not isinstance(body[0], ast.Return) or body[0].value is None:
			return None
		return g, body[0].value

	class T(ast.NodeTransformer):
		def visit_Call(self, node: ast.Call):
			self.generic_visit(node)
			h = helper_of(node)
			if h is None:
				return node
			g, ret = h
			params = [a.arg for a in g.node.args.posonlyargs + g.node.args.args]
			if params and params[0] in ('self', 'cls') and isinstance(node.func, ast.Attribute):
				params = params[1:]
			binding = {p_: a for p_, a in zip(params, node.args) if not isinstance(a, ast.Starred)}
			binding.update({kw.arg: kw.value for kw in node.keywords if kw.arg})

			class S(ast.NodeTransformer):
				def visit_Name(self, n: ast.Name):
					if isinstance(n.ctx, ast.Load) and n.id in binding:
						return copy.deepcopy(binding[n.id])
					return n
			return inline_simple_calls(g, S().visit(copy.deepcopy(ret)), depth - 1)
	return T().visit(copy.deepcopy(e))


def merged_function(func: FuncInfo, depth: int = 2, full: bool = False, stmts: bool = False) -> ast.AST:
	"""copy of func (alias-expanded; fully inlined with full=True) in which every `return <call of a same-class private helper / nested function>` is replaced
	by the helper's own (expanded) body with its parameters substituted by the call arguments (`cast(T, x)` arguments stand for x). A branch body that was
	moved into `__loads_tree(entry)` is then analysed where it is used."""
	import copy
	base = FI if full else X

	def helper_of(f: FuncInfo, c: ast.AST):
		if not isinstance(c, ast.Call):
			return None
		g = None
		if isinstance(c.func, ast.Attribute) and isinstance(c.func.value, ast.Name) and c.func.value.id in ('self', 'cls') and f.cls is not None:
			g = f.cls.method(c.func.attr)
			if g is not None and not g.name.startswith('_'):
				g = None
		elif isinstance(c.func, ast.Name):
			g = f.module.functions.get(f'{f.qualname}.<locals>.{c.func.id}')
		return g if g is not None and g is not f else None

	def inline_in(owner: ast.AST, f: FuncInfo, d: int, stack: tuple) -> None:
		class T(ast.NodeTransformer):
			def visit_FunctionDef(self, node):
				if node is owner:
					self.generic_visit(node)
				return node

			def visit_Return(self, node: ast.Return):
				g = helper_of(f, node.value) if d > 0 else None
				if g is None or id(g) in stack:
					return node
				c = node.value
				params = [a.arg for a in g.node.args.posonlyargs + g.node.args.args]
				if params and params[0] in ('self', 'cls') and isinstance(c.func, ast.Attribute):
					params = params[1:]
				binding = {}
				for p_, a in list(zip(params, c.args)) + [(kw.arg, kw.value) for kw in c.keywords if kw.arg]:
					if isinstance(a, ast.Starred):
						continue
					if isinstance(a, ast.Call) and isinstance(a.func, ast.Name) and a.func.id == 'cast' and len(a.args) == 2:
						a = a.args[1]
					binding[p_] = a

				class S(ast.NodeTransformer):
					def visit_Name(self, n: ast.Name):
						if isinstance(n.ctx, ast.Load) and n.id in binding:
							return copy.deepcopy(binding[n.id])
						return n
				gx = S().visit(copy.deepcopy(base(g)))
				inline_in(gx, g, d - 1, stack + (id(g),))
				body = [s_ for s_ in gx.body if not (isinstance(s_, ast.Expr) and isinstance(s_.value, ast.Constant))]
				for s_ in body:
					ast.copy_location(s_, s_)
				return body or [ast.Pass()]

			def visit_Expr(self, node: ast.Expr):
				# with stmts=True: a call statement of a private helper that returns nothing (a procedure: `cls._push(blocks, text, begin, index)`) is
				# replaced by the helper's body, when the helper assigns to none of its parameters
				g = helper_of(f, node.value) if (stmts and d > 0) else None
				if g is None or id(g) in stack:
					return node
				if any(isinstance(x, ast.Return) and x.value is not None for x in ast.walk(g.node)) or any(isinstance(x, (ast.Yield, ast.YieldFrom)) for x in ast.walk(g.node)):
					return node
				c = node.value
				params = [a.arg for a in g.node.args.posonlyargs + g.node.args.args]
				if params and params[0] in ('self', 'cls') and isinstance(c.func, ast.Attribute):
					params = params[1:]
				if any(isinstance(x, ast.Name) and isinstance(x.ctx, ast.Store) and x.id in params for x in ast.walk(g.node)) or any(isinstance(a, ast.Starred) for a in c.args):
					return node
				binding = dict(list(zip(params, c.args)) + [(kw.arg, kw.value) for kw in c.keywords if kw.arg])
				if set(params) - set(binding):
					return node

				class S2(ast.NodeTransformer):
					def visit_Name(self, n: ast.Name):
						if isinstance(n.ctx, ast.Load) and n.id in binding:
							return copy.deepcopy(binding[n.id])
						return n
				gx = S2().visit(copy.deepcopy(base(g)))
				inline_in(gx, g, d - 1, stack + (id(g),))
				body = [s_ for s_ in gx.body if not (isinstance(s_, ast.Expr) and isinstance(s_.value, ast.Constant))]
				# a bare `return` inside the helper only ends the helper: keep the inlining to helpers without one
				if any(isinstance(x, ast.Return) for s_ in body for x in ast.walk(s_)):
					return node
				# the inlined statements stand where the call stood: position-based orderings (stores between a test and its use) must see them there
				for s_ in body:
					for x in ast.walk(s_):
						if hasattr(x, 'lineno'):
							x.lineno, x.col_offset, x.end_lineno, x.end_col_offset = node.lineno, node.col_offset, node.end_lineno, node.end_col_offset
				return body or [ast.Pass()]
		T().visit(owner)
	root = copy.deepcopy(base(func))
	inline_in(root, func, depth, (id(func),))
	return ast.fix_missing_locations(root)


def split_tuple_assigns(root: ast.AST) -> ast.AST:
	"""a COPY of root in which `a, b, c = E` reads `a = E[0]; b = E[1]; c = E[2]` (and `a, b = x, y` reads `a = x; b = y`) when no target is starred: the
	element-wise reading of a destructuring assignment, so that rules about `t.line = src[0]` also see `t.line, t.column = src`. The argument is not
	touched: the trees of the source index and the cached X()/FI() copies are shared between rules, and their memoised parent maps must stay valid."""
	import copy
	root = copy.deepcopy(root)

	class T(ast.NodeTransformer):
		def visit_Assign(self, node: ast.Assign):
			if len(node.targets) == 1 and isinstance(node.targets[0], (ast.Tuple, ast.List)) and not any(isinstance(e, ast.Starred) for e in node.targets[0].elts):
				elts = node.targets[0].elts
				out = []
				for i, t in enumerate(elts):
					if isinstance(node.value, (ast.Tuple, ast.List)) and len(node.value.elts) == len(elts):
						v = node.value.elts[i]
					else:
						v = ast.Subscript(value=copy.deepcopy(node.value), slice=ast.Constant(value=i), ctx=ast.Load())
					out.append(ast.copy_location(ast.Assign(targets=[t], value=v, lineno=node.lineno), node))
				return out
			return node
	T().visit(root)
	return ast.fix_missing_locations(root)
