"""Helpers for writer/reader schema agreement: keys of dict literals, keys subscripted on a name, TypedDict declarations."""
from __future__ import annotations

import ast

from vlib.srcindex import attr_chain, const_str, unparse


def dict_keys(d: ast.Dict) -> list[str | None]:
	return [const_str(k) if k is not None else None for k in d.keys]


def subscripted_keys(root: ast.AST, name: str) -> set[str]:
	"""constant keys k in `name[k]` (Load context) under root; also `cast(T, name)[k]` and `'k' in name`"""
	out: set[str] = set()
	for n in ast.walk(root):
		if isinstance(n, ast.Subscript) and const_str(n.slice) is not None:
			v = n.value
			if isinstance(v, ast.Call) and attr_chain(v.func) == 'cast' and len(v.args) == 2:
				v = v.args[1]
			if isinstance(v, ast.Name) and v.id == name:
				out.add(const_str(n.slice))
	return out


def typeddict_keys(module_tree: ast.AST) -> dict[str, dict[str, str]]:
	"""TypedDict declarations `X = TypedDict('X', {...})` and class-style `class X(TypedDict): a: T` -> {name: {key: annotation source}}"""
	out: dict[str, dict[str, str]] = {}
	for n in ast.walk(module_tree):
		if isinstance(n, ast.Assign) and len(n.targets) == 1 and isinstance(n.targets[0], ast.Name) and isinstance(n.value, ast.Call) and attr_chain(n.value.func) == 'TypedDict' and len(n.value.args) == 2 and isinstance(n.value.args[1], ast.Dict):
			d = n.value.args[1]
			out[n.targets[0].id] = {const_str(k): unparse(v) for k, v in zip(d.keys, d.values) if const_str(k) is not None}
		elif isinstance(n, ast.ClassDef) and any(attr_chain(b) == 'TypedDict' for b in n.bases):
			out[n.name] = {s.target.id: unparse(s.annotation) for s in n.body if isinstance(s, ast.AnnAssign) and isinstance(s.target, ast.Name)}
	return out


def returned_dicts(func_node: ast.AST) -> list[ast.Dict]:
	return [n.value for n in ast.walk(func_node) if isinstance(n, ast.Return) and isinstance(n.value, ast.Dict)]
