"""Independent reader of tranp's meta-grammar (`data/syntax/*.lark`, the `symbol[unwrap] := expr` syntax).

Produces the tuple tree documented by `Rules.from_ast` / shipped in `*_rules.py`, without importing tranp:

    entry := (rule)+
    rule := symbol ["[" unwrap "]"] ":=" expr "\\n"
    expr[1] := terms_or ; terms_or[1] := terms ("|" terms)* ; terms[1] := (term)+
    term[1] := symbol | string | regexp | expr_opt | expr_rep
    expr_opt := "[" expr "]" ; expr_rep := "(" expr ")" [repeat]

String-literal terminals are not kept in the tree; `[x]` leaves ('__empty__','') when absent; `[1]` unwraps a
single child.
"""
from __future__ import annotations

import ast
import re

from vlib.core import AnalysisError

Tok = tuple[str, str, int]  # kind, text, line


def tokenize(text: str, path: str = '') -> list[Tok]:
	toks: list[Tok] = []
	i, n, line = 0, len(text), 1
	while i < n:
		c = text[i]
		if c == '\n':
			toks.append(('nl', '\n', line))
			line += 1
			i += 1
		elif c in ' \t\r':
			i += 1
		elif text.startswith('//', i):
			j = text.find('\n', i)
			i = n if j == -1 else j  # newline itself is tokenised next
		elif c in '"/':
			j = i + 1
			while j < n and text[j] != c:
				if text[j] == '\\':
					j += 1
				if j < n and text[j] == '\n':
					raise AnalysisError(f'{path}:{line}: unterminated {c} quote')
				j += 1
			if j >= n:
				raise AnalysisError(f'{path}:{line}: unterminated {c} quote')
			toks.append(('string' if c == '"' else 'regexp', text[i:j + 1], line))
			i = j + 1
		elif text.startswith(':=', i):
			toks.append((':=', ':=', line))
			i += 2
		elif c in '[]()|*+?':
			toks.append((c, c, line))
			i += 1
		elif c.isalpha() or c == '_':
			m = re.compile(r'[a-zA-Z_]\w*').match(text, i)
			assert m
			toks.append(('symbol', m.group(0), line))
			i = m.end()
		elif c.isdigit():
			toks.append(('digit', c, line))
			i += 1
		else:
			raise AnalysisError(f'{path}:{line}: unexpected character {c!r} in meta-grammar')
	return toks


class _P:
	def __init__(self, toks: list[Tok], path: str) -> None:
		self.toks = toks
		self.i = 0
		self.path = path

	def peek(self, k: int = 0) -> Tok:
		return self.toks[self.i + k] if self.i + k < len(self.toks) else ('eof', '', -1)

	def take(self, kind: str) -> Tok:
		t = self.peek()
		if t[0] != kind:
			raise AnalysisError(f'{self.path}:{t[2]}: expected {kind}, found {t[0]} {t[1]!r}')
		self.i += 1
		return t

	def entry(self) -> tuple:
		rules = []
		while True:
			while self.peek()[0] == 'nl':
				self.i += 1
			if self.peek()[0] == 'eof':
				break
			rules.append(self.rule())
		if not rules:
			raise AnalysisError(f'{self.path}: no rules')
		return ('entry', rules)

	def rule(self) -> tuple:
		sym = self.take('symbol')
		unwrap: tuple = ('__empty__', '')
		if self.peek()[0] == '[':
			self.take('[')
			t = self.peek()
			if t[0] == 'digit' and t[1] == '1':
				self.i += 1
				unwrap = ('unwrap', '1')
			elif t[0] == '*':
				self.i += 1
				unwrap = ('unwrap', '*')
			else:
				raise AnalysisError(f'{self.path}:{t[2]}: bad unwrap marker {t[1]!r}')
			self.take(']')
		self.take(':=')
		body = self.expr()
		if self.peek()[0] not in ('nl', 'eof'):
			t = self.peek()
			raise AnalysisError(f'{self.path}:{t[2]}: trailing {t[1]!r} in rule {sym[1]}')
		if self.peek()[0] == 'nl':
			self.i += 1
		return ('rule', [('symbol', sym[1]), unwrap, body])

	def expr(self) -> tuple:
		alts = [self.terms()]
		while self.peek()[0] == '|':
			self.i += 1
			alts.append(self.terms())
		return alts[0] if len(alts) == 1 else ('terms_or', alts)

	def terms(self) -> tuple:
		items = []
		while self.peek()[0] in ('symbol', 'string', 'regexp', '[', '('):
			# `symbol :=` / `symbol [` `1` `]` `:=` would start the next rule only after a newline, so no lookahead is needed
			items.append(self.term())
		if not items:
			t = self.peek()
			raise AnalysisError(f'{self.path}:{t[2]}: empty term sequence before {t[1]!r}')
		return items[0] if len(items) == 1 else ('terms', items)

	def term(self) -> tuple:
		t = self.peek()
		if t[0] in ('symbol', 'string', 'regexp'):
			self.i += 1
			return (t[0], t[1])
		if t[0] == '[':
			self.i += 1
			e = self.expr()
			self.take(']')
			return ('expr_opt', [e])
		self.take('(')
		e = self.expr()
		self.take(')')
		r = self.peek()
		if r[0] in ('*', '+', '?'):
			self.i += 1
			return ('expr_rep', [e, ('repeat', r[0])])
		return ('expr_rep', [e, ('__empty__', '')])


def read_grammar(text: str, path: str = '') -> tuple:
	return _P(tokenize(text, path), path).entry()


def read_rules_module(source: str, path: str = '') -> tuple:
	"""The tuple literal passed to `Rules.from_ast(...)` in a checked-in rule module (file is never executed)."""
	tree = ast.parse(source)
	for node in ast.walk(tree):
		if isinstance(node, ast.Call) and isinstance(node.func, ast.Attribute) and node.func.attr == 'from_ast' and len(node.args) == 1:
			try:
				return ast.literal_eval(node.args[0])
			except ValueError as e:
				raise AnalysisError(f'{path}: argument of from_ast is not a literal: {e}')
	raise AnalysisError(f'{path}: no Rules.from_ast(<literal>) call found')


def first_diff(a, b, path: str = '') -> str | None:
	if type(a) is not type(b):
		return f'{path}: {type(a).__name__} {a!r:.60} != {type(b).__name__} {b!r:.60}'
	if isinstance(a, tuple):
		if len(a) != len(b):
			return f'{path}: tuple length {len(a)} != {len(b)}'
		if a[0] != b[0]:
			return f'{path}: node {a[0]!r} != {b[0]!r}'
		return first_diff(a[1], b[1], f'{path}/{a[0]}')
	if isinstance(a, list):
		for i, (x, y) in enumerate(zip(a, b)):
			d = first_diff(x, y, f'{path}[{i}]')
			if d:
				return d
		if len(a) != len(b):
			return f'{path}: {len(a)} children != {len(b)} children'
		return None
	return None if a == b else f'{path}: {a!r} != {b!r}'


def rules_of(tree: tuple) -> dict[str, tuple]:
	"""rule symbol -> ('rule', [...]) preserving order"""
	out: dict[str, tuple] = {}
	for r in tree[1]:
		out[r[1][0][1]] = r
	return out
