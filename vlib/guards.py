"""Guard-dominance walk: which effect call sites are reachable from an entry without passing the enabled side of a guard.

Syntax-directed (no CFG library): handles the idioms the repository uses — `if guard: effect`, `if not guard: return`,
short-circuit `a and b and c` / `a or b`, conditional expressions, boolean helper methods all of whose `return`
expressions imply the guard, and class-valued locals selected by the guard (`ctor = A if guard else B`).
"""
from __future__ import annotations

import ast
from typing import Callable

from vlib.srcindex import ClassInfo, FuncInfo, SourceIndex, attr_chain, unparse
from vlib.typer import Typer


def always_exits(stmts: list[ast.stmt]) -> bool:
	for s in stmts:
		if isinstance(s, (ast.Return, ast.Raise, ast.Continue, ast.Break)):
			return True
		if isinstance(s, ast.Assert) and isinstance(s.test, ast.Constant) and not s.test.value:
			return True
		if isinstance(s, ast.If) and s.orelse and always_exits(s.body) and always_exits(s.orelse):
			return True
	return False


class Effect:
	def __init__(self, func: FuncInfo, call: ast.AST, path: list[str], guarded: bool) -> None:
		self.func = func
		self.call = call
		self.path = path
		self.guarded = guarded

	@property
	def text(self) -> str:
		return unparse(self.call)


class GuardWalker:
	def __init__(self, idx: SourceIndex, typer: Typer, in_region: Callable[[FuncInfo], bool], is_guard: Callable[[FuncInfo, ast.AST], bool], is_effect: Callable[[FuncInfo, ast.Call], bool]) -> None:
		self.idx = idx
		self.typer = typer
		self.in_region = in_region
		self.is_guard = is_guard
		self.is_effect = is_effect
		self.effects: list[Effect] = []
		self.undecided: list[tuple[FuncInfo, ast.AST, str]] = []
		self._active: set[tuple[int, bool]] = set()
		self._helper_memo: dict[int, bool] = {}

	# -- guard algebra ---------------------------------------------------------------------------------------

	def implies(self, func: FuncInfo, e: ast.AST) -> bool:
		"""e evaluating truthy implies the guard is on"""
		if self.is_guard(func, e):
			return True
		if isinstance(e, ast.BoolOp) and isinstance(e.op, ast.And):
			return any(self.implies(func, v) for v in e.values)
		if isinstance(e, ast.BoolOp) and isinstance(e.op, ast.Or):
			return all(self.implies(func, v) for v in e.values)
		if isinstance(e, ast.UnaryOp) and isinstance(e.op, ast.Not):
			return self.falsy_implies(func, e.operand)
		if isinstance(e, ast.Call):
			cs = [c for c in self.typer.callees(func, e, widen=False) if self.in_region(c)]
			return bool(cs) and all(self.helper_implies(c) for c in cs)
		return False

	def falsy_implies(self, func: FuncInfo, e: ast.AST) -> bool:
		"""e evaluating falsy implies the guard is on"""
		if isinstance(e, ast.UnaryOp) and isinstance(e.op, ast.Not):
			return self.implies(func, e.operand)
		if isinstance(e, ast.BoolOp) and isinstance(e.op, ast.Or):
			return any(self.falsy_implies(func, v) for v in e.values)
		if isinstance(e, ast.BoolOp) and isinstance(e.op, ast.And):
			return all(self.falsy_implies(func, v) for v in e.values)
		return False

	def helper_implies(self, f: FuncInfo) -> bool:
		"""every `return` of the helper returns an expression that implies the guard (and the helper cannot fall off the end)"""
		if id(f) in self._helper_memo:
			return self._helper_memo[id(f)]
		self._helper_memo[id(f)] = False
		rets = [n for n in ast.walk(f.node) if isinstance(n, ast.Return)]
		ok = bool(rets) and self._returns_imply(f, f.node.body, False) and always_exits(f.node.body)
		self._helper_memo[id(f)] = ok
		return ok

	def _returns_imply(self, f: FuncInfo, stmts: list[ast.stmt], g: bool) -> bool:
		"""every return in stmts hands out a value that is truthy only with the guard on: the value implies it, or it is a constant falsy value, or the
		return stands where the guard is already known to be on (behind `if not <guard>: return False`)"""
		ok = True
		for s in stmts:
			if isinstance(s, ast.Return):
				v = s.value
				const_falsy = isinstance(v, ast.Constant) and not v.value
				ok = ok and v is not None and (g or const_falsy or self.implies(f, v))
			elif isinstance(s, ast.If):
				pos, neg = self.implies(f, s.test), self.falsy_implies(f, s.test)
				ok = self._returns_imply(f, s.body, g or pos) and ok
				ok = self._returns_imply(f, s.orelse, g or neg) and ok
				if always_exits(s.body) and neg:
					g = True
				if s.orelse and always_exits(s.orelse) and pos:
					g = True
			elif isinstance(s, (ast.FunctionDef, ast.AsyncFunctionDef, ast.ClassDef)):
				continue
			else:
				for fld in ('body', 'orelse', 'finalbody'):
					blk = getattr(s, fld, None)
					if isinstance(blk, list) and blk and isinstance(blk[0], ast.stmt):
						ok = self._returns_imply(f, blk, g) and ok
				for h in getattr(s, 'handlers', []) or []:
					ok = self._returns_imply(f, h.body, g) and ok
		return ok

	# -- walk ------------------------------------------------------------------------------------------------

	def walk_func(self, f: FuncInfo, guarded: bool, path: list[str]) -> None:
		key = (id(f), guarded)
		if key in self._active or len(path) > 25:
			return
		self._active.add(key)
		try:
			self.walk_block(f, f.node.body, guarded, path + [f.qualname], {})
		finally:
			self._active.discard(key)

	def walk_block(self, f: FuncInfo, stmts: list[ast.stmt], guarded: bool, path: list[str], cenv: dict) -> bool:
		"""returns the guarded state at the end of the block"""
		g = guarded
		for s in stmts:
			if isinstance(s, ast.If):
				self.expr(f, s.test, g, path, cenv)
				pos, neg = self.implies(f, s.test), self.falsy_implies(f, s.test)
				self.walk_block(f, s.body, g or pos, path, cenv)
				self.walk_block(f, s.orelse, g or neg, path, cenv)
				if always_exits(s.body) and neg:
					g = True
				if s.orelse and always_exits(s.orelse) and pos:
					g = True
			elif isinstance(s, (ast.FunctionDef, ast.AsyncFunctionDef)):
				# a closure may be called anywhere later: walk it as its own entry, unguarded
				nested = f.module.functions.get(f'{f.qualname}.<locals>.{s.name}')
				if nested is not None and self.in_region(nested):
					self.walk_func(nested, False, path)
			elif isinstance(s, ast.ClassDef):
				continue
			elif isinstance(s, (ast.For, ast.AsyncFor)):
				self.expr(f, s.iter, g, path, cenv)
				self.walk_block(f, s.body, g, path, cenv)
				self.walk_block(f, s.orelse, g, path, cenv)
			elif isinstance(s, ast.While):
				self.expr(f, s.test, g, path, cenv)
				self.walk_block(f, s.body, g or self.implies(f, s.test), path, cenv)
				self.walk_block(f, s.orelse, g, path, cenv)
			elif isinstance(s, (ast.With, ast.AsyncWith)):
				for item in s.items:
					self.expr(f, item.context_expr, g, path, cenv)
				self.walk_block(f, s.body, g, path, cenv)
			elif isinstance(s, ast.Try):
				self.walk_block(f, s.body, g, path, cenv)
				for h in s.handlers:
					self.walk_block(f, h.body, g, path, cenv)
				self.walk_block(f, s.orelse, g, path, cenv)
				self.walk_block(f, s.finalbody, g, path, cenv)
			elif isinstance(s, ast.Assign) or (isinstance(s, ast.AnnAssign) and s.value is not None):
				# an annotated local (`cached: Cached[T] = ctor(...)`) is bound like a plain one: the VALUE says which class was selected, the
				# annotation only names their common base
				self.expr(f, s.value, g, path, cenv)
				tgts = s.targets if isinstance(s, ast.Assign) else [s.target]
				if len(tgts) == 1 and isinstance(tgts[0], ast.Name):
					cv = self.class_value(f, s.value, g, cenv)
					if cv is not None:
						cenv[tgts[0].id] = cv
					else:
						cenv.pop(tgts[0].id, None)
			else:
				for child in ast.iter_child_nodes(s):
					if isinstance(child, ast.expr):
						self.expr(f, child, g, path, cenv)
					elif isinstance(child, ast.stmt):
						self.walk_block(f, [child], g, path, cenv)
		return g

	def class_value(self, f: FuncInfo, e: ast.AST, g: bool, cenv: dict) -> list[tuple[ClassInfo, bool]] | None:
		if isinstance(e, ast.IfExp):
			a = self.class_value(f, e.body, g or self.implies(f, e.test), cenv)
			b = self.class_value(f, e.orelse, g or self.falsy_implies(f, e.test), cenv)
			if a is not None and b is not None:
				return a + b
			return None
		if isinstance(e, ast.Name):
			if e.id in cenv:
				return cenv[e.id]
			c = self.idx.resolve_class(f.module, e)
			if c is not None:
				return [(c, g)]
			return None
		if isinstance(e, ast.Call) and isinstance(e.func, ast.Name) and e.func.id in cenv:
			return cenv[e.func.id]
		return None

	def expr(self, f: FuncInfo, e: ast.AST, g: bool, path: list[str], cenv: dict) -> None:
		if isinstance(e, ast.BoolOp):
			cur = g
			for v in e.values:
				self.expr(f, v, cur, path, cenv)
				if isinstance(e.op, ast.And) and self.implies(f, v):
					cur = True
				if isinstance(e.op, ast.Or) and self.falsy_implies(f, v):
					cur = True
			return
		if isinstance(e, ast.IfExp):
			self.expr(f, e.test, g, path, cenv)
			self.expr(f, e.body, g or self.implies(f, e.test), path, cenv)
			self.expr(f, e.orelse, g or self.falsy_implies(f, e.test), path, cenv)
			return
		if isinstance(e, ast.Lambda):
			self.expr(f, e.body, False, path, cenv)
			return
		if isinstance(e, ast.Call):
			for a in e.args:
				self.expr(f, a, g, path, cenv)
			for k in e.keywords:
				self.expr(f, k.value, g, path, cenv)
			if isinstance(e.func, ast.Attribute):
				self.expr(f, e.func.value, g, path, cenv)
			if self.is_effect(f, e):
				self.effects.append(Effect(f, e, path, g))
			# class-valued locals selected by the guard
			targets: list[tuple[FuncInfo, bool]] = []
			if isinstance(e.func, ast.Name) and e.func.id in cenv:
				for c, cg in cenv[e.func.id]:
					m = self.idx.lookup(c, '__init__')
					if m is not None:
						targets.append((m, g or cg))
			elif isinstance(e.func, ast.Attribute) and isinstance(e.func.value, ast.Name) and e.func.value.id in cenv:
				for c, cg in cenv[e.func.value.id]:
					m = self.idx.lookup(c, e.func.attr)
					if m is not None:
						targets.append((m, g or cg))
			else:
				for c in self.typer.callees(f, e):
					targets.append((c, g))
			for t, tg in targets:
				if self.in_region(t):
					self.walk_func(t, tg, path)
			return
		for child in ast.iter_child_nodes(e):
			if isinstance(child, ast.expr):
				self.expr(f, child, g, path, cenv)
			elif isinstance(child, ast.comprehension):
				self.expr(f, child.iter, g, path, cenv)
				for c in child.ifs:
					self.expr(f, c, g, path, cenv)
