"""SourceIndex and ClassModel: ast-level model of /repo's Python sources (never imports repo code)."""
from __future__ import annotations

import ast
import glob
import hashlib
import os

from vlib.core import REPO, AnalysisError


def unparse(node: ast.AST | None) -> str:
	return ast.unparse(node) if node is not None else ''


def attr_chain(expr: ast.AST) -> str | None:
	"""`a.b.c` -> 'a.b.c'; anything else -> None."""
	parts = []
	while isinstance(expr, ast.Attribute):
		parts.append(expr.attr)
		expr = expr.value
	if isinstance(expr, ast.Name):
		parts.append(expr.id)
		return '.'.join(reversed(parts))
	return None


def call_name(call: ast.Call) -> str | None:
	return attr_chain(call.func)


def const_str(expr: ast.AST | None) -> str | None:
	if isinstance(expr, ast.Constant) and isinstance(expr.value, str):
		return expr.value
	return None


def mangle(cls_name: str, attr: str) -> str:
	"""Python's private-name mangling, so `self.__x` inside class C and `_C__x` compare equal."""
	if attr.startswith('__') and not attr.endswith('__'):
		return f'_{cls_name.lstrip("_")}{attr}'
	return attr


def walk_no_nested(node: ast.AST, include_lambdas: bool = True):
	"""ast.walk over a function body without descending into nested function/class definitions."""
	stack = list(ast.iter_child_nodes(node))
	while stack:
		n = stack.pop()
		yield n
		if isinstance(n, (ast.FunctionDef, ast.AsyncFunctionDef, ast.ClassDef)):
			continue
		if isinstance(n, ast.Lambda) and not include_lambdas:
			continue
		stack.extend(ast.iter_child_nodes(n))


class FuncInfo:
	def __init__(self, module: 'ModuleInfo', node: ast.FunctionDef, qualname: str, cls: 'ClassInfo | None') -> None:
		self.module = module
		self.node = node
		self.qualname = qualname
		self.cls = cls
		self.name = node.name

	@property
	def decorators(self) -> list[str]:
		out = []
		for d in self.node.decorator_list:
			target = d.func if isinstance(d, ast.Call) else d
			out.append(attr_chain(target) or unparse(target))
		return out

	@property
	def is_property(self) -> bool:
		return 'property' in self.decorators

	@property
	def where(self) -> tuple[str, int]:
		return (self.module.relpath, self.node.lineno)

	def params(self) -> list[str]:
		a = self.node.args
		return [x.arg for x in a.posonlyargs + a.args + a.kwonlyargs]

	def __repr__(self) -> str:
		return f'<Func {self.module.relpath}:{self.qualname}>'


class ClassInfo:
	def __init__(self, module: 'ModuleInfo', node: ast.ClassDef, qualname: str, outer: 'ClassInfo | None') -> None:
		self.module = module
		self.node = node
		self.qualname = qualname
		self.name = node.name
		self.outer = outer
		self.methods: dict[str, list[FuncInfo]] = {}  # name -> defs in order (property + setter, overloads)
		self.nested: dict[str, ClassInfo] = {}
		self.class_attrs: dict[str, ast.AST] = {}  # simple `x = value` / `x: T = value` at class level

	@property
	def where(self) -> tuple[str, int]:
		return (self.module.relpath, self.node.lineno)

	def method(self, name: str) -> FuncInfo | None:
		defs = self.methods.get(name)
		if not defs:
			return None
		# for a property with setter, the getter is the first definition; for @overload the last is the implementation
		for d in defs:
			if 'property' in d.decorators:
				return d
		return defs[-1]

	def __repr__(self) -> str:
		return f'<Class {self.module.relpath}:{self.qualname}>'


class ModuleInfo:
	def __init__(self, index: 'SourceIndex', relpath: str) -> None:
		self.index = index
		self.relpath = relpath
		self.path = os.path.join(index.repo, relpath)
		try:
			with open(self.path, encoding='utf-8') as f:
				self.source = f.read()
		except OSError as e:
			raise AnalysisError(f'anchor file vanished: {relpath} ({e})')
		try:
			self.tree = ast.parse(self.source, filename=relpath)
		except SyntaxError as e:
			raise AnalysisError(f'cannot parse {relpath}: {e}')
		self.digest = hashlib.sha256(self.source.encode()).hexdigest()
		self.lines = self.source.split('\n')
		self.name = relpath[:-3].replace('/', '.')
		if self.name.endswith('.__init__'):
			self.name = self.name[:-9]
		self.classes: dict[str, ClassInfo] = {}  # qualname -> ClassInfo
		self.functions: dict[str, FuncInfo] = {}  # qualname -> FuncInfo (all, including methods and nested)
		self.imports: dict[str, tuple[str, str | None]] = {}  # local alias -> (module, name or None)
		self.globals: dict[str, ast.AST] = {}
		self.future_annotations = False
		self._collect()

	def _collect(self) -> None:
		for stmt in ast.walk(self.tree):
			if isinstance(stmt, ast.Import):
				for a in stmt.names:
					self.imports[a.asname or a.name.split('.')[0]] = (a.name if a.asname else a.name.split('.')[0], None)
			elif isinstance(stmt, ast.ImportFrom):
				mod = stmt.module or ''
				if stmt.level:
					base = self.name.split('.')
					base = base[:len(base) - stmt.level] if not self.relpath.endswith('__init__.py') else base[:len(base) - stmt.level + 1]
					mod = '.'.join(base + ([mod] if mod else []))
				if mod == '__future__' and any(a.name == 'annotations' for a in stmt.names):
					self.future_annotations = True
				for a in stmt.names:
					self.imports[a.asname or a.name] = (mod, a.name)
		for stmt in self.tree.body:
			if isinstance(stmt, ast.Assign) and len(stmt.targets) == 1 and isinstance(stmt.targets[0], ast.Name):
				self.globals[stmt.targets[0].id] = stmt.value
			elif isinstance(stmt, ast.AnnAssign) and isinstance(stmt.target, ast.Name) and stmt.value is not None:
				self.globals[stmt.target.id] = stmt.value
		self._collect_scope(self.tree.body, '', None)

	def _collect_scope(self, body: list[ast.stmt], prefix: str, cls: ClassInfo | None) -> None:
		for stmt in body:
			if isinstance(stmt, (ast.FunctionDef, ast.AsyncFunctionDef)):
				q = prefix + stmt.name
				fi = FuncInfo(self, stmt, q, cls)
				# keep all definitions; functions dict holds the last one under the plain qualname, earlier ones with #n suffix
				if q in self.functions:
					n = 1
					while f'{q}#{n}' in self.functions:
						n += 1
					self.functions[f'{q}#{n}'] = self.functions[q]
				self.functions[q] = fi
				if cls is not None:
					cls.methods.setdefault(stmt.name, []).append(fi)
				self._collect_scope(stmt.body, q + '.<locals>.', None)
			elif isinstance(stmt, ast.ClassDef):
				q = prefix + stmt.name
				ci = ClassInfo(self, stmt, q, cls)
				self.classes[q] = ci
				if cls is not None:
					cls.nested[stmt.name] = ci
				self._collect_scope(stmt.body, q + '.', ci)
			elif cls is not None and isinstance(stmt, ast.Assign) and len(stmt.targets) == 1 and isinstance(stmt.targets[0], ast.Name):
				cls.class_attrs[stmt.targets[0].id] = stmt.value
			elif cls is not None and isinstance(stmt, ast.AnnAssign) and isinstance(stmt.target, ast.Name) and stmt.value is not None:
				cls.class_attrs[stmt.target.id] = stmt.value
			elif isinstance(stmt, (ast.If, ast.Try, ast.With)):
				for sub in ast.iter_child_nodes(stmt):
					if isinstance(sub, ast.stmt):
						self._collect_scope([sub], prefix, cls)
					elif isinstance(sub, ast.ExceptHandler):
						self._collect_scope(sub.body, prefix, cls)

	def func(self, qualname: str) -> FuncInfo:
		f = self.functions.get(qualname)
		if f is None:
			raise AnalysisError(f'anchor function vanished: {self.relpath}:{qualname}')
		return f

	def cls(self, qualname: str) -> ClassInfo:
		c = self.classes.get(qualname)
		if c is None:
			raise AnalysisError(f'anchor class vanished: {self.relpath}:{qualname}')
		return c

	def line(self, lineno: int) -> str:
		return self.lines[lineno - 1].strip() if 0 < lineno <= len(self.lines) else ''


class SourceIndex:
	def __init__(self, repo: str = REPO) -> None:
		self.repo = repo
		self._mods: dict[str, ModuleInfo] = {}

	def mod(self, relpath: str) -> ModuleInfo:
		if relpath not in self._mods:
			self._mods[relpath] = ModuleInfo(self, relpath)
		return self._mods[relpath]

	def try_mod(self, relpath: str) -> ModuleInfo | None:
		if not os.path.exists(os.path.join(self.repo, relpath)):
			return None
		return self.mod(relpath)

	def mod_by_name(self, name: str) -> ModuleInfo | None:
		rel = name.replace('.', '/') + '.py'
		if os.path.exists(os.path.join(self.repo, rel)):
			return self.mod(rel)
		rel = name.replace('.', '/') + '/__init__.py'
		if os.path.exists(os.path.join(self.repo, rel)):
			return self.mod(rel)
		return None

	def glob(self, pattern: str) -> list[str]:
		out = sorted(os.path.relpath(p, self.repo) for p in glob.glob(os.path.join(self.repo, pattern), recursive=True))
		return [p for p in out if '__pycache__' not in p]

	def all_py(self, roots=('rogw',)) -> list[str]:
		out = []
		for r in roots:
			out.extend(self.glob(f'{r}/**/*.py'))
		return out

	# -- name resolution -------------------------------------------------------------------------------------

	def resolve_name(self, module: ModuleInfo, dotted: str, _depth: int = 0) -> tuple[str, object] | None:
		"""Resolve a dotted name used in `module` to ('class', ClassInfo) | ('func', FuncInfo) | ('module', ModuleInfo) | ('global', (ModuleInfo, name))."""
		if _depth > 8:
			return None
		parts = dotted.split('.')
		head = parts[0]
		# local definitions first
		for n in range(len(parts), 0, -1):
			q = '.'.join(parts[:n])
			if q in module.classes and n == len(parts):
				return ('class', module.classes[q])
			if q in module.functions and n == len(parts):
				return ('func', module.functions[q])
		if head in module.imports:
			mod, name = module.imports[head]
			if name is None:
				target = self.mod_by_name(mod)
				if target is None:
					return None
				if len(parts) == 1:
					return ('module', target)
				return self.resolve_name(target, '.'.join(parts[1:]), _depth + 1)
			# from mod import name
			sub = self.mod_by_name(f'{mod}.{name}')
			if sub is not None:
				if len(parts) == 1:
					return ('module', sub)
				return self.resolve_name(sub, '.'.join(parts[1:]), _depth + 1)
			target = self.mod_by_name(mod)
			if target is None:
				return None
			return self.resolve_name(target, '.'.join([name] + parts[1:]), _depth + 1)
		if head in module.globals and len(parts) == 1:
			return ('global', (module, head))
		return None

	def resolve_class(self, module: ModuleInfo, expr: ast.AST) -> ClassInfo | None:
		if isinstance(expr, ast.Subscript):
			expr = expr.value
		if isinstance(expr, ast.Constant) and isinstance(expr.value, str):
			dotted = expr.value
		else:
			dotted = attr_chain(expr)
		if dotted is None:
			return None
		r = self.resolve_name(module, dotted)
		if r and r[0] == 'class':
			return r[1]  # type: ignore
		return None

	# -- class model -----------------------------------------------------------------------------------------

	def bases(self, cls: ClassInfo) -> list[ClassInfo]:
		out = []
		for b in cls.node.bases:
			ci = self.resolve_class(cls.module, b)
			if ci is not None:
				out.append(ci)
		return out

	def mro(self, cls: ClassInfo) -> list[ClassInfo]:
		"""C3 linearisation over the classes defined in the repository (external bases are dropped)."""
		memo: dict[int, list[ClassInfo]] = {}

		def lin(c: ClassInfo, depth: int = 0) -> list[ClassInfo]:
			if id(c) in memo:
				return memo[id(c)]
			if depth > 50:
				raise AnalysisError(f'inheritance cycle at {c}')
			bs = self.bases(c)
			seqs = [list(lin(b, depth + 1)) for b in bs] + [list(bs)]
			res = [c]
			while True:
				seqs = [s for s in seqs if s]
				if not seqs:
					break
				for s in seqs:
					cand = s[0]
					if not any(cand in t[1:] for t in seqs):
						break
				else:
					raise AnalysisError(f'inconsistent MRO for {c}')
				res.append(cand)
				for s in seqs:
					if s and s[0] is cand:
						del s[0]
			memo[id(c)] = res
			return res

		return lin(cls)

	def lookup(self, cls: ClassInfo, name: str) -> FuncInfo | None:
		for c in self.mro(cls):
			m = c.method(name)
			if m is not None:
				return m
		return None

	def lookup_after(self, cls: ClassInfo, owner: ClassInfo, name: str) -> FuncInfo | None:
		"""`super().name` evaluated in a method defined on `owner` for an instance of `cls`."""
		mro = self.mro(cls)
		if owner not in mro:
			return None
		for c in mro[mro.index(owner) + 1:]:
			m = c.method(name)
			if m is not None:
				return m
		return None

	def is_subclass(self, cls: ClassInfo, base: ClassInfo) -> bool:
		return base in self.mro(cls)
