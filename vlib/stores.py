"""Store analysis: container attributes of a class (initialised to {} / [] in __init__) and which methods add to,
delete from, replace or alias them. Private names are compared in mangled form (self.__x inside class C == _C__x)."""
from __future__ import annotations

import ast

from vlib.srcindex import ClassInfo, FuncInfo, mangle, unparse, walk_no_nested

MUTATORS_ADD = {'append', 'extend', 'insert', 'update', 'setdefault', 'add'}
MUTATORS_DEL = {'pop', 'remove', 'clear', 'popitem', 'discard'}


def stores_of(cls: ClassInfo) -> dict[str, ast.AST]:
	"""mangled attribute name -> initial value expr, for attributes initialised to an empty/literal container in __init__"""
	out: dict[str, ast.AST] = {}
	init = cls.method('__init__')
	if init is None:
		return out
	for n in walk_no_nested(init.node):
		tgt, val = None, None
		if isinstance(n, ast.Assign) and len(n.targets) == 1:
			tgt, val = n.targets[0], n.value
		elif isinstance(n, ast.AnnAssign):
			tgt, val = n.target, n.value
		if isinstance(tgt, ast.Attribute) and isinstance(tgt.value, ast.Name) and tgt.value.id == 'self' and val is not None:
			if isinstance(val, (ast.Dict, ast.List, ast.Set)) or (isinstance(val, ast.Call) and unparse(val.func) in ('dict', 'list', 'set', 'OrderedDict', 'defaultdict')):
				out[mangle(cls.name, tgt.attr)] = val
	return out


def attr_of(e: ast.AST, owner: ClassInfo, bases: tuple[str, ...] = ('self',)) -> tuple[str, str] | None:
	"""(base name, mangled attr) for `<base>.<attr>` with base a plain name"""
	if isinstance(e, ast.Attribute) and isinstance(e.value, ast.Name) and (e.value.id in bases or not bases):
		return e.value.id, mangle(owner.name, e.attr)
	return None


class Effects:
	def __init__(self) -> None:
		self.adds: list[tuple[str, str, ast.AST]] = []      # (base, attr, node): subscript store / add-mutators
		self.dels: list[tuple[str, str, ast.AST]] = []      # del x[k] / pop / clear / filtered re-assignment
		self.assigns: list[tuple[str, str, ast.AST, ast.AST]] = []  # (base, attr, value, node): whole-attribute assignment
		self.reads: list[tuple[str, str, ast.AST]] = []


def effects_of(f: FuncInfo, owner: ClassInfo, bases: tuple[str, ...] = ('self',)) -> Effects:
	ef = Effects()
	for n in walk_no_nested(f.node):
		if isinstance(n, (ast.Assign, ast.AugAssign, ast.AnnAssign)):
			targets = n.targets if isinstance(n, ast.Assign) else [n.target]
			for t in targets:
				if isinstance(t, ast.Subscript):
					a = attr_of(t.value, owner, bases)
					if a:
						ef.adds.append((a[0], a[1], n))
				else:
					a = attr_of(t, owner, bases)
					if a and getattr(n, 'value', None) is not None:
						ef.assigns.append((a[0], a[1], n.value, n))
		elif isinstance(n, ast.Delete):
			for t in n.targets:
				if isinstance(t, ast.Subscript):
					a = attr_of(t.value, owner, bases)
					if a:
						ef.dels.append((a[0], a[1], n))
		elif isinstance(n, ast.Call) and isinstance(n.func, ast.Attribute):
			a = attr_of(n.func.value, owner, bases)
			if a:
				if n.func.attr in MUTATORS_ADD:
					ef.adds.append((a[0], a[1], n))
				elif n.func.attr in MUTATORS_DEL:
					ef.dels.append((a[0], a[1], n))
		if isinstance(n, ast.Attribute) and isinstance(n.ctx, ast.Load):
			a = attr_of(n, owner, bases)
			if a:
				ef.reads.append((a[0], a[1], n))
	return ef


def is_fresh(value: ast.AST) -> bool:
	"""the expression builds a new container: x.copy(), {**a, **b}, dict(x), list(x), [*a, *b], comprehension, literal"""
	if isinstance(value, (ast.Dict, ast.List, ast.Set, ast.DictComp, ast.ListComp, ast.SetComp)):
		return True
	if isinstance(value, ast.BinOp) and isinstance(value.op, (ast.BitOr, ast.Add)):
		return True  # a | b (dict union) and a + b build a new container
	if isinstance(value, ast.Call):
		fn = value.func
		if isinstance(fn, ast.Attribute) and fn.attr in ('copy', 'deepcopy') :
			return True
		if isinstance(fn, ast.Name) and fn.id in ('dict', 'list', 'set', 'deepcopy', 'OrderedDict'):
			return True
		if unparse(fn) in ('copy.copy', 'copy.deepcopy'):
			return True
	return False
