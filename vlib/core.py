"""Reporting core of the static checkers: rules, obligations, floors, known findings, evidence, replay.

A check is a function ``run(rep: Report, tier: str)`` that creates rules on ``rep`` and files one obligation per
discovered instance. Nothing here runs tranp; every fact comes from parsing /repo's current sources.
"""
from __future__ import annotations

import json
import os
import sys
import time
import traceback

VERIF = os.path.dirname(os.path.dirname(os.path.abspath(__file__)))
REPO = os.environ.get('VERIF_REPO', '/repo')
EVIDENCE_DIR = os.environ.get('VERIF_EVIDENCE_DIR') or os.path.join(VERIF, 'evidence')
REPLAY_DIR = os.path.join(EVIDENCE_DIR, 'replay')
KNOWN_FINDINGS = os.path.join(VERIF, 'known_findings.json')


class AnalysisError(Exception):
	"""The analysis no longer sees what it was built for (vanished anchor, unparseable input)."""


class Obligation:
	__slots__ = ('rule', 'key', 'status', 'file', 'line', 'message', 'fragment', 'extra')

	def __init__(self, rule: str, key: str, status: str, file: str = '', line: int = 0, message: str = '', fragment: str = '', extra: dict | None = None) -> None:
		self.rule = rule
		self.key = key
		self.status = status  # discharged | violated | undecided
		self.file = file
		self.line = line
		self.message = message
		self.fragment = fragment
		self.extra = extra or {}

	def to_json(self) -> dict:
		return {'rule': self.rule, 'key': self.key, 'status': self.status, 'file': self.file, 'line': self.line, 'message': self.message, 'fragment': self.fragment, **({'extra': self.extra} if self.extra else {})}


class Rule:
	def __init__(self, rep: 'Report', rule_id: str, text: str, floor: int = 1, armed: bool = True) -> None:
		self.rep = rep
		self.id = rule_id
		self.text = text
		self.floor = floor
		self.armed = armed
		self.obligations: list[Obligation] = []
		self.notes: list[str] = []

	def _loc(self, where) -> tuple[str, int]:
		if where is None:
			return '', 0
		if isinstance(where, tuple):
			return where[0], int(where[1])
		return str(where), 0

	def ok(self, key: str, where=None, message: str = '', fragment: str = '') -> None:
		f, l = self._loc(where)
		self.obligations.append(Obligation(self.id, key, 'discharged', f, l, message, fragment))

	def violate(self, key: str, where=None, message: str = '', fragment: str = '', extra: dict | None = None) -> None:
		f, l = self._loc(where)
		if not self.armed:
			self.notes.append(f'(report-only) {key}: {message}')
			self.obligations.append(Obligation(self.id, key, 'discharged', f, l, '(report-only) ' + message, fragment))
			return
		self.obligations.append(Obligation(self.id, key, 'violated', f, l, message, fragment, extra))

	def undecided(self, key: str, where=None, message: str = '', fragment: str = '') -> None:
		f, l = self._loc(where)
		self.obligations.append(Obligation(self.id, key, 'undecided', f, l, message, fragment))

	def skip(self, key: str, where=None, message: str = '') -> None:
		"""the idiom this obligation models is not present in the code any more: it is not evaluated (no verdict), which is noted in the evidence"""
		f, l = self._loc(where)
		self.notes.append(f'not evaluated: {key}: {message}')
		self.obligations.append(Obligation(self.id, key, 'discharged', f, l, 'NOT EVALUATED (model anchor not recognised): ' + message, ''))

	def check(self, cond: bool, key: str, where=None, message: str = '', fragment: str = '') -> bool:
		if cond:
			self.ok(key, where, '', fragment)
		else:
			self.violate(key, where, message, fragment)
		return cond

	def note(self, text: str) -> None:
		self.notes.append(text)


class Report:
	def __init__(self, prop: str, tier: str, level: str = 'other') -> None:
		self.prop = prop
		self.tier = tier
		self.level = level
		self.rules: list[Rule] = []
		self.files: set[str] = set()
		self.assumptions: list[str] = []
		self.trusted_base: list[str] = []
		self.explanation = ''
		self.extra_coverage: dict = {}
		self.errors: list[str] = []
		self.t0 = time.time()

	def rule(self, rule_id: str, text: str, floor: int = 1, armed: bool = True) -> Rule:
		r = Rule(self, rule_id, text, floor, armed)
		self.rules.append(r)
		return r

	def error(self, text: str) -> None:
		self.errors.append(text)

	def consulted(self, *paths: str) -> None:
		for p in paths:
			self.files.add(os.path.relpath(p, REPO) if os.path.isabs(p) else p)

	def all_obligations(self) -> list[Obligation]:
		return [o for r in self.rules for o in r.obligations]


def load_known() -> dict:
	if not os.path.exists(KNOWN_FINDINGS):
		return {'known': [], 'fixed': []}
	with open(KNOWN_FINDINGS) as f:
		return json.load(f)


def _safe(name: str) -> str:
	return ''.join(c if c.isalnum() or c in '-_.' else '_' for c in name)[:150]


def finalize(rep: Report, replay_filter: dict | None = None) -> int:
	"""Print the verdict, write evidence and replay files, return the exit code."""
	known = load_known()
	known_keys = {(k['property'], k['key']): k for k in known.get('known', [])}
	obligations = rep.all_obligations()
	errors = list(rep.errors)

	for r in rep.rules:
		n = len(r.obligations)
		if n < r.floor:
			errors.append(f'rule {r.id}: {n} instances found, floor is {r.floor} (the rule would pass vacuously)')
		for o in r.obligations:
			if o.status == 'undecided':
				errors.append(f'rule {r.id}: undecided obligation {o.key} at {o.file}:{o.line}: {o.message}')

	violated = [o for o in obligations if o.status == 'violated']
	new = [o for o in violated if (rep.prop, o.key) not in known_keys]
	listed = [o for o in violated if (rep.prop, o.key) in known_keys]
	discharged = sum(1 for o in obligations if o.status == 'discharged')

	print(f'== {rep.prop} tier={rep.tier} rules={len(rep.rules)} obligations={len(obligations)} discharged={discharged} violated={len(violated)} files={len(rep.files)}')
	for r in rep.rules:
		nv = sum(1 for o in r.obligations if o.status == 'violated')
		print(f'  rule {r.id}: instances={len(r.obligations)} floor={r.floor} violated={nv}{"" if r.armed else " (report-only)"} -- {r.text}')
		for n in r.notes[:12]:
			print(f'      note: {n}')
		if len(r.notes) > 12:
			print(f'      note: ... {len(r.notes) - 12} more in evidence')

	for o in listed:
		k = known_keys[(rep.prop, o.key)]
		print(f'KNOWN-FINDING: property={rep.prop} {k.get("what", o.message)} [{o.key}]')

	os.makedirs(REPLAY_DIR, exist_ok=True)
	replay_paths = []
	for o in new:
		path = os.path.join(REPLAY_DIR, f'{rep.prop}-{_safe(o.key)}.json')
		with open(path, 'w') as f:
			json.dump({'property': rep.prop, 'tier': rep.tier, **o.to_json()}, f, indent=1, ensure_ascii=False)
		replay_paths.append(path)
		print(f'{o.file}:{o.line}: [{o.rule}] {o.key}: {o.message}')
		if o.fragment:
			print(f'    | {o.fragment}')
		print(f'VIOLATION property={rep.prop} replay={path}')

	for e in errors:
		print(f'ANALYSIS-ERROR property={rep.prop} {e}')

	if replay_filter is None:
		write_evidence(rep, obligations, discharged, violated, listed, errors)

	if errors:
		return 2
	if new:
		return 1
	return 0


def write_evidence(rep: Report, obligations, discharged, violated, listed, errors) -> None:
	os.makedirs(EVIDENCE_DIR, exist_ok=True)
	per_rule = []
	samples = []
	for r in rep.rules:
		per_rule.append({
			'rule': r.id, 'text': r.text, 'armed': r.armed, 'floor': r.floor, 'instances': len(r.obligations),
			'violated': sum(1 for o in r.obligations if o.status == 'violated'),
			'notes': r.notes[:60],
		})
		for o in r.obligations[:3]:
			samples.append({'rule': r.id, 'instance': o.key, 'status': o.status, 'where': f'{o.file}:{o.line}' if o.file else '', **({'fragment': o.fragment} if o.fragment else {})})
	for o in violated:
		samples.append({'rule': o.rule, 'instance': o.key, 'status': 'violated', 'where': f'{o.file}:{o.line}', 'message': o.message})
	distinct = len({(o.rule, o.key) for o in obligations})
	coverage = {
		'explanation': rep.explanation,
		'obligations': len(obligations),
		'discharged': discharged,
		'evaluations': len(obligations),
		'distinct_nontrivial': distinct,
		'rule': 'one obligation per (rule, instance) discovered in the current /repo sources; distinct = distinct (rule, instance-key) pairs; every instance is non-trivial in the sense that it is a concrete construct of the repository the rule applies to',
		'samples': samples[:80],
		'rules': per_rule,
		'files_parsed': sorted(rep.files),
		'trusted_base': rep.trusted_base,
		'exhaustive': True,
		'known_findings_reported': [o.key for o in listed],
		'analysis_errors': errors,
		**rep.extra_coverage,
	}
	if rep.level == 'translation_validation':
		coverage.setdefault('programs', len(obligations))
		coverage.setdefault('disagreements_checked', len(violated))
	ev = {
		'property_id': rep.prop,
		'tier': rep.tier,
		'seed': int(os.environ.get('VERIF_SEED', '0') or 0),
		'level': rep.level,
		'coverage': coverage,
		'assumptions': rep.assumptions,
		'wall_s': round(time.time() - rep.t0, 3),
		'violations': len(violated) - len(listed),
	}
	with open(os.path.join(EVIDENCE_DIR, f'{rep.prop}.json'), 'w') as f:
		json.dump(ev, f, indent=1, ensure_ascii=False)
		f.write('\n')


def main_wrapper(fn) -> int:
	try:
		return fn()
	except AnalysisError as e:
		print(f'ANALYSIS-ERROR {e}')
		return 2
	except SystemExit:
		raise
	except BaseException:
		traceback.print_exc(file=sys.stdout)
		print('ANALYSIS-ERROR traceback in checker (see above)')
		return 2
