"""GrammarModel: the shapes of the trees lark builds for data/grammar.lark, computed from lark's compiled rule list
(lark is used as a reader/compiler of the grammar data file only — no Python program is ever parsed).

For every tree tag (rule name or `-> alias`) the model gives its *productions*: ordered slots `(tagset, mult)` with
mult in {one, none, many}; `none` is the `None` placeholder lark inserts for an absent `[x]` (tranp names it `__empty__`).
The child filter is lark's own algorithm (parse_tree_builder.maybe_create_child_filter) re-applied symbolically:
anonymous string tokens are dropped unless the rule keeps all tokens (`!`), `_rules` are inlined, `?rules` with a single
child are replaced by that child unless the alternative has an alias.
"""
from __future__ import annotations

import os
from dataclasses import dataclass

from vlib.core import REPO, AnalysisError

EMPTY = '__empty__'


@dataclass(frozen=True)
class Slot:
	tags: frozenset
	mult: str  # one | none | many

	def __repr__(self) -> str:
		t = '|'.join(sorted(self.tags))
		return {'one': t, 'none': '<none>', 'many': f'({t})+'}[self.mult]


class GrammarModel:
	def __init__(self, relpath: str = 'data/grammar.lark', start: str = 'file_input') -> None:
		try:
			import lark
			from lark.indenter import PythonIndenter
		except ImportError as e:
			raise AnalysisError(f'lark is not importable: {e}')
		self.relpath = relpath
		path = os.path.join(REPO, relpath)
		try:
			with open(path, encoding='utf-8') as f:
				self.text = f.read()
		except OSError as e:
			raise AnalysisError(f'anchor file vanished: {relpath} ({e})')
		try:
			self.lark = lark.Lark(self.text, start=start, parser='lalr', postlex=PythonIndenter(), propagate_positions=True)
		except Exception as e:
			raise AnalysisError(f'{relpath} does not compile with lark: {type(e).__name__}: {str(e)[:300]}')
		self.rules = self.lark.rules
		self.term_patterns = {t.name: t.pattern for t in self.lark.terminals}
		self.by_origin: dict[str, list] = {}
		for r in self.rules:
			self.by_origin.setdefault(r.origin.name, []).append(r)
		self._yields: dict[str, frozenset] = {}
		self._inline: dict[str, list[list[Slot]]] = {}
		self._prods: dict[str, list[list[Slot]]] | None = None

	# -- lark's child filter, symbolically ------------------------------------------------------------------------

	def _items(self, rule) -> list[tuple[str, str]]:
		"""kept children of one compiled rule alternative: ('none',''), ('tok',NAME), ('nt',name), ('inline',name)"""
		exp = rule.expansion
		ei = rule.options.empty_indices
		if ei:
			s = ''.join(str(int(b)) for b in ei)
			empties = [len(ones) for ones in s.split('0')]
			if len(empties) != len(exp) + 1:
				raise AnalysisError(f'unexpected empty_indices for {rule.origin.name}')
		else:
			empties = [0] * (len(exp) + 1)
		out: list[tuple[str, str]] = []
		for i, sym in enumerate(exp):
			out.extend([('none', '')] * empties[i])
			if sym.is_term:
				if rule.options.keep_all_tokens or not sym.filter_out:
					out.append(('tok', sym.name))
			else:
				out.append(('inline' if sym.name.startswith('_') else 'nt', sym.name))
		out.extend([('none', '')] * empties[len(exp)])
		return out

	def tag_of(self, rule) -> str:
		return str(rule.alias or rule.options.template_source or rule.origin.name)

	def yields(self, nt: str, _stack: tuple = ()) -> frozenset:
		"""tree tags / token names a child derived from non-inlined nonterminal `nt` can carry"""
		if nt in self._yields:
			return self._yields[nt]
		if nt in _stack:
			return frozenset()
		out: set = set()
		for r in self.by_origin.get(nt, []):
			if r.alias or not r.options.expand1:
				out.add(self.tag_of(r))
				continue
			for prod in self._expand(self._items(r), _stack + (nt,)):
				if len(prod) == 1 and prod[0].mult != 'many':
					out |= set(prod[0].tags) if prod[0].mult == 'one' else {EMPTY}
				elif len(prod) == 1 and prod[0].mult == 'many':
					out |= set(prod[0].tags)  # exactly one repetition -> replaced by the child
					out.add(self.tag_of(r))
				else:
					out.add(self.tag_of(r))
		res = frozenset(str(x) for x in out)
		if not _stack:
			self._yields[nt] = res
		return res

	def _inline_prods(self, name: str, _stack: tuple) -> list[list[Slot]]:
		"""productions of an inlined rule (`_x` or a `__x_star_n` helper). Recursive helpers are summarised as one `many` slot."""
		if name in self._inline:
			return self._inline[name]
		rules = self.by_origin.get(name, [])
		recursive = any(s.name == name for r in rules for s in r.expansion)
		if recursive:
			tags: set = set()
			for r in rules:
				for kind, sym in self._items(r):
					if sym == name:
						continue
					if kind == 'tok':
						tags.add(str(sym))
					elif kind == 'nt':
						tags |= set(self.yields(sym, _stack))
					elif kind == 'inline':
						for p in self._inline_prods(sym, _stack + (name,)):
							for sl in p:
								tags |= set(sl.tags) if sl.mult != 'none' else {EMPTY}
					elif kind == 'none':
						tags.add(EMPTY)
			res = [[Slot(frozenset(tags), 'many')]]
		else:
			res = []
			for r in rules:
				res.extend(self._expand(self._items(r), _stack + (name,)))
		self._inline[name] = res
		return res

	def _expand(self, items: list[tuple[str, str]], _stack: tuple = ()) -> list[list[Slot]]:
		prods: list[list[Slot]] = [[]]
		for kind, sym in items:
			if kind == 'none':
				alts = [[Slot(frozenset([EMPTY]), 'none')]]
			elif kind == 'tok':
				alts = [[Slot(frozenset([str(sym)]), 'one')]]
			elif kind == 'nt':
				alts = [[Slot(self.yields(sym, _stack), 'one')]]
			else:
				alts = self._inline_prods(sym, _stack)
			prods = [p + a for p in prods for a in alts]
			if len(prods) > 4000:
				raise AnalysisError('grammar production explosion')
		return prods

	def productions(self) -> dict[str, list[list[Slot]]]:
		"""tree tag -> list of productions (each a list of slots)"""
		if self._prods is None:
			out: dict[str, list[list[Slot]]] = {}
			for r in self.rules:
				if r.origin.name.startswith('_'):
					continue
				for p in self._expand(self._items(r)):
					# an expand1 alternative without alias and exactly one child never appears as a tree of this tag
					if r.options.expand1 and not r.alias and len(p) == 1 and p[0].mult != 'many':
						continue
					out.setdefault(self.tag_of(r), [])
					if p not in out[self.tag_of(r)]:
						out[self.tag_of(r)].append(p)
			self._prods = out
		return self._prods

	def tags(self) -> set[str]:
		return set(self.productions())

	def token_names(self) -> set[str]:
		return set(self.term_patterns)

	def literal_of(self, term: str) -> str | None:
		p = self.term_patterns.get(term)
		if p is not None and type(p).__name__ == 'PatternStr':
			return p.value
		return None

	# -- fixed positions --------------------------------------------------------------------------------------------

	@staticmethod
	def fixed_prefix(prod: list[Slot]) -> int:
		n = 0
		for s in prod:
			if s.mult == 'many':
				break
			n += 1
		return n

	@staticmethod
	def min_len(prod: list[Slot]) -> int:
		return len(prod)  # a `many` slot stands for at least one child

	@staticmethod
	def has_many(prod: list[Slot]) -> bool:
		return any(s.mult == 'many' for s in prod)

	def child_tags(self, tag: str) -> set[str]:
		out: set = set()
		for p in self.productions().get(tag, []):
			for s in p:
				out |= set(s.tags)
		return out


# ---- operator ladder (from the EBNF rule definitions) ----------------------------------------------------------------

@dataclass
class Level:
	rule: str
	tag: str            # tree tag carrying this operator level
	kind: str           # binary | prefix | ternary
	tokens: list[str]   # Python-source spelling of the operator tokens introduced here
	operand: str        # rule of the (tighter) operand
	depth: int


def ladder(gm: GrammarModel, root: str = 'expression') -> list[Level]:
	"""walks `?X: Y (op Y)*`, `op X`, `Y "if" Y "else" X` alternatives from `root` down to the first rule that is none of these"""
	from lark.load_grammar import load_grammar
	g = load_grammar(gm.text, gm.relpath, [], False)
	g = g[0] if isinstance(g, tuple) else g
	defs = {str(name): (tree, opts) for name, params, tree, opts in g.rule_defs}

	def alts(tree):
		out = []
		for ch in tree.children:
			if ch.data == 'alias':
				out.append((ch.children[0], str(getattr(ch.children[1], 'name', ch.children[1])) if ch.children[1] is not None else None))
			else:
				out.append((ch, None))
		return out

	def values(expansion):
		return list(expansion.children)

	def nt_name(v):
		if getattr(v, 'data', None) == 'value' and len(v.children) == 1 and type(v.children[0]).__name__ == 'NonTerminal':
			return v.children[0].name
		return None

	def lit(v):
		if getattr(v, 'data', None) == 'value' and getattr(v.children[0], 'data', None) == 'literal':
			return str(v.children[0].children[0])[1:-1]
		return None

	def op_tokens(name: str) -> list[str]:
		tree, _ = defs[name]
		toks = []
		for exp, alias in alts(tree):
			parts = [lit(v) for v in values(exp)]
			if any(p is None for p in parts):
				raise AnalysisError(f'operator rule {name} has a non-literal alternative')
			toks.append(' '.join(parts))
		return toks

	levels: list[Level] = []
	cur, depth, seen = root, 0, set()
	while cur in defs and cur not in seen:
		seen.add(cur)
		tree, opts = defs[cur]
		nxt = None
		for exp, alias in alts(tree):
			vs = values(exp)
			names = [nt_name(v) for v in vs]
			# Y (op Y)*
			if len(vs) == 2 and names[0] and getattr(vs[1], 'data', None) == 'expr' and str(vs[1].children[-1]) in ('*', '+'):
				inner = vs[1].children[0]
				ivs = values(inner.children[0]) if inner.data == 'expansions' and len(inner.children) == 1 else []
				if len(ivs) == 2 and nt_name(ivs[0]) and nt_name(ivs[1]) == names[0]:
					levels.append(Level(cur, alias or cur, 'binary', op_tokens(nt_name(ivs[0])), names[0], depth))
					nxt = names[0]
					continue
				# Y (op X)*: the right operand is the level itself — the chain nests to the right instead of staying flat (reported by ladder-shape)
				if len(ivs) == 2 and nt_name(ivs[0]) and nt_name(ivs[1]) == cur:
					levels.append(Level(cur, alias or cur, 'binary', op_tokens(nt_name(ivs[0])), cur, depth))
					nxt = names[0]
					continue
			# X op Y  (the same binary level written left-recursively: `floor_div: factor | floor_div _op factor`); Y op X nests to the right and is
			# recorded with the level itself as operand, like `Y (op X)*`, for ladder-shape to report
			if len(vs) == 3 and all(names) and names[1] in defs and (names[1].startswith('_') or names[1].endswith('_op')) and cur in (names[0], names[2]) and names[0] != names[2]:
				try:
					toks = op_tokens(names[1])
				except AnalysisError:
					toks = None
				if toks is not None:
					lower = names[2] if names[0] == cur else names[0]
					levels.append(Level(cur, alias or cur, 'binary', toks, lower if names[0] == cur else cur, depth))
					if nxt is None or nxt == lower:
						nxt = lower
					continue
			# op X  (prefix, recursive)
			if len(vs) == 2 and names[0] and names[1] == cur and (names[0].startswith('_') or names[0].endswith('_op')):
				levels.append(Level(cur, alias or cur, 'prefix', op_tokens(names[0]), cur, depth))
				continue
			# Y "if" Y "else" X
			if len(vs) == 5 and lit(vs[1]) == 'if' and lit(vs[3]) == 'else' and names[0] and names[2]:
				# CPython: or_test "if" or_test "else" test  (value and condition one level down, the else branch recursive)
				lower = names[2] if names[0] == cur else names[0]
				levels.append(Level(cur, alias or cur, 'ternary', ['if-else'], lower, depth))
				if names[0] == cur:
					levels[-1].tokens = ['if-else(left-recursive value)']
				elif names[2] != names[0]:
					levels[-1].tokens = ['if-else(condition on another level)']
				elif names[4] != cur:
					levels[-1].tokens = ['if-else(non-recursive else)']
				continue
			if len(vs) == 1 and names[0]:
				if nxt is None or names[0] in defs:
					# pass-through alternative; prefer the one that continues the chain
					if nxt is None:
						nxt = names[0]
				continue
		if nxt is None:
			break
		cur = nxt
		depth += 1
	return levels
