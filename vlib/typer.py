"""Annotation-driven callee resolution (a small type inferencer over the ast), used to build call graphs of closed regions.

Types are sets of ClassInfo read from annotations only: parameter and return annotations, `self.x = param` in `__init__`,
annotated assignments, constructor calls. Interfaces resolve to every repository class that has them on its MRO (or that
is declared `@duck_typed(Iface)`). Unresolvable receivers yield no callee and are counted, so evidence can print the
resolution rate; rules that need soundness restrict themselves to regions where every call resolves.
"""
from __future__ import annotations

import ast

from vlib.srcindex import ClassInfo, FuncInfo, ModuleInfo, SourceIndex, attr_chain, mangle, walk_no_nested


class Typer:
	def __init__(self, idx: SourceIndex, universe: list[str] | None = None) -> None:
		self.idx = idx
		self.universe = universe if universe is not None else idx.all_py(('rogw',))
		self._subclasses: dict[int, list[ClassInfo]] | None = None
		self._attr_types: dict[tuple[int, str], list[ClassInfo]] = {}
		self._local_cache: dict[int, dict[str, list[ClassInfo]]] = {}

	# -- class hierarchy -------------------------------------------------------------------------------------

	def all_classes(self) -> list[ClassInfo]:
		out = []
		for rel in self.universe:
			out.extend(self.idx.mod(rel).classes.values())
		return out

	def implementations(self, cls: ClassInfo) -> list[ClassInfo]:
		"""cls itself plus every class having cls on its MRO, plus classes decorated `duck_typed(cls)`"""
		if self._subclasses is None:
			self._subclasses = {}
			for c in self.all_classes():
				try:
					mro = self.idx.mro(c)
				except Exception:
					mro = [c]
				for b in mro:
					self._subclasses.setdefault(id(b), []).append(c)
				# duck_typed(Proto) written as a statement before the class or as a decorator on the class / its __call__
				for deco in c.node.decorator_list:
					if isinstance(deco, ast.Call) and attr_chain(deco.func) == 'duck_typed' and deco.args:
						p = self.idx.resolve_class(c.module, deco.args[0])
						if p is not None:
							self._subclasses.setdefault(id(p), []).append(c)
				call = c.method('__call__')
				if call is not None:
					for deco in call.node.decorator_list:
						if isinstance(deco, ast.Call) and attr_chain(deco.func) == 'duck_typed' and deco.args:
							p = self.idx.resolve_class(c.module, deco.args[0])
							if p is not None:
								self._subclasses.setdefault(id(p), []).append(c)
			for rel in self.universe:
				m = self.idx.mod(rel)
				body = m.tree.body
				for i, stmt in enumerate(body[:-1]):
					if isinstance(stmt, ast.Expr) and isinstance(stmt.value, ast.Call) and attr_chain(stmt.value.func) == 'duck_typed' and stmt.value.args and isinstance(body[i + 1], ast.ClassDef):
						p = self.idx.resolve_class(m, stmt.value.args[0])
						c = m.classes.get(body[i + 1].name)
						if p is not None and c is not None:
							self._subclasses.setdefault(id(p), []).append(c)
		out = self._subclasses.get(id(cls), [])
		return out if cls in out else [cls] + out

	# -- types of expressions --------------------------------------------------------------------------------

	def ann_types(self, module: ModuleInfo, ann: ast.AST | None, owner: ClassInfo | None = None) -> list[ClassInfo]:
		if ann is None:
			return []
		if isinstance(ann, ast.Constant) and isinstance(ann.value, str):
			try:
				ann = ast.parse(ann.value, mode='eval').body
			except SyntaxError:
				return []
		if isinstance(ann, ast.BinOp) and isinstance(ann.op, ast.BitOr):
			return self.ann_types(module, ann.left, owner) + self.ann_types(module, ann.right, owner)
		if isinstance(ann, ast.Subscript):
			base = attr_chain(ann.value)
			if base in ('type', 'Optional', 'Union', 'list', 'Iterator', 'Sequence', 'Final', 'ClassVar'):
				if base in ('list', 'Iterator', 'Sequence'):
					return []
				sl = ann.slice
				if isinstance(sl, ast.Tuple):
					out = []
					for e in sl.elts:
						out.extend(self.ann_types(module, e, owner))
					return out
				return self.ann_types(module, sl, owner)
			return self.ann_types(module, ann.value, owner)
		if isinstance(ann, ast.Name) and ann.id == 'Self' and owner is not None:
			return [owner]
		c = self.idx.resolve_class(module, ann)
		return [c] if c is not None else []

	def attr_types(self, cls: ClassInfo, attr: str) -> list[ClassInfo]:
		"""types of `self.<attr>` for instances of cls: property return annotation, or the annotation of the value assigned in any method"""
		key = (id(cls), attr)
		if key in self._attr_types:
			return self._attr_types[key]
		self._attr_types[key] = []
		out: list[ClassInfo] = []
		for c in self.idx.mro(cls):
			m = c.method(attr)
			if m is not None:
				if m.is_property:
					out = self.ann_types(m.module, m.node.returns, cls)
				break
			found = False
			for name, defs in c.methods.items():
				for f in defs:
					for n in walk_no_nested(f.node):
						tgt, val, ann = None, None, None
						if isinstance(n, ast.Assign) and len(n.targets) == 1:
							tgt, val = n.targets[0], n.value
						elif isinstance(n, ast.AnnAssign):
							tgt, val, ann = n.target, n.value, n.annotation
						if isinstance(tgt, ast.Attribute) and isinstance(tgt.value, ast.Name) and tgt.value.id == 'self' and mangle(c.name, tgt.attr) == mangle(c.name, attr):
							found = True
							if ann is not None:
								out.extend(self.ann_types(f.module, ann, cls))
							elif val is not None:
								out.extend(self.expr_types(f, val))
			if found:
				break
		self._attr_types[key] = out
		return out

	def locals_of(self, func: FuncInfo) -> dict[str, list[ClassInfo]]:
		if id(func) in self._local_cache:
			return self._local_cache[id(func)]
		env: dict[str, list[ClassInfo]] = {}
		self._local_cache[id(func)] = env
		a = func.node.args
		allargs = a.posonlyargs + a.args + a.kwonlyargs
		for i, p in enumerate(allargs):
			if i == 0 and func.cls is not None and p.arg in ('self', 'cls') and 'staticmethod' not in func.decorators:
				env[p.arg] = [func.cls]
			else:
				env[p.arg] = self.ann_types(func.module, p.annotation, func.cls)
		# enclosing function's environment for closures
		if '.<locals>.' in func.qualname:
			outer_q = func.qualname.rsplit('.<locals>.', 1)[0]
			outer = func.module.functions.get(outer_q)
			if outer is not None:
				for k, v in self.locals_of(outer).items():
					env.setdefault(k, v)
		for _ in range(2):
			for n in walk_no_nested(func.node):
				if isinstance(n, ast.Assign) and len(n.targets) == 1 and isinstance(n.targets[0], ast.Name):
					t = self.expr_types(func, n.value, env)
					if t:
						env[n.targets[0].id] = t
				elif isinstance(n, ast.AnnAssign) and isinstance(n.target, ast.Name):
					t = self.ann_types(func.module, n.annotation, func.cls)
					if t:
						env[n.target.id] = t
				elif isinstance(n, ast.For) and isinstance(n.target, ast.Name):
					t = self.elem_types(func, n.iter, env)
					if t:
						env[n.target.id] = t
				elif isinstance(n, (ast.With,)):
					for item in n.items:
						if isinstance(item.optional_vars, ast.Name):
							t = self.expr_types(func, item.context_expr, env)
							if t:
								env[item.optional_vars.id] = t
		return env

	def elem_types(self, func: FuncInfo, expr: ast.AST, env: dict | None = None) -> list[ClassInfo]:
		"""element type of an iterable expression, from `list[T]`-style annotations only"""
		ann = self._ann_of(func, expr, env)
		if ann is not None:
			mod, a, owner = ann
			if isinstance(a, ast.Subscript) and attr_chain(a.value) in ('list', 'Iterator', 'Sequence', 'Iterable'):
				return self.ann_types(mod, a.slice, owner)
		return []

	def _ann_of(self, func: FuncInfo, expr: ast.AST, env: dict | None = None):
		"""(module, annotation, owner) of the declared type of expr if it is a property access or call with a return annotation"""
		if isinstance(expr, ast.Attribute):
			for c in self.expr_types(func, expr.value, env):
				m = self.idx.lookup(c, expr.attr)
				if m is not None and m.is_property and m.node.returns is not None:
					return (m.module, m.node.returns, c)
		if isinstance(expr, ast.Call):
			for callee in self.callees(func, expr, env):
				if callee.node.returns is not None:
					return (callee.module, callee.node.returns, callee.cls)
		return None

	def expr_types(self, func: FuncInfo, expr: ast.AST, env: dict | None = None) -> list[ClassInfo]:
		if env is None:
			env = self.locals_of(func)
		if isinstance(expr, ast.Name):
			if expr.id in env:
				return env[expr.id]
			c = self.idx.resolve_class(func.module, expr)
			return [c] if c is not None else []  # a class object used as a value (class methods are looked up the same way)
		if isinstance(expr, ast.Attribute):
			base = self.expr_types(func, expr.value, env)
			out: list[ClassInfo] = []
			for c in base:
				out.extend(self.attr_types(c, expr.attr))
				if expr.attr in c.nested:
					out.append(c.nested[expr.attr])
			if not out:
				c = self.idx.resolve_class(func.module, expr)
				if c is not None:
					out.append(c)
			return out
		if isinstance(expr, ast.Call):
			# constructor
			c = self.idx.resolve_class(func.module, expr.func) if attr_chain(expr.func) else None
			if c is not None:
				return [c]
			fn = attr_chain(expr.func)
			if fn in ('cast', 'as_a') and len(expr.args) == 2:
				return self.ann_types(func.module, expr.args[0], func.cls)
			out = []
			for callee in self.callees(func, expr, env):
				out.extend(self.ann_types(callee.module, callee.node.returns, callee.cls))
			return out
		if isinstance(expr, ast.IfExp):
			return self.expr_types(func, expr.body, env) + self.expr_types(func, expr.orelse, env)
		if isinstance(expr, ast.Subscript):
			return self.elem_types(func, expr.value, env)
		if isinstance(expr, ast.Await):
			return self.expr_types(func, expr.value, env)
		return []

	# -- callees ---------------------------------------------------------------------------------------------

	def callees(self, func: FuncInfo, call: ast.Call, env: dict | None = None, widen: bool = True) -> list[FuncInfo]:
		"""FuncInfos a call may reach. `widen` adds overriding implementations in subclasses / interface implementations."""
		if env is None:
			env = self.locals_of(func)
		f = call.func
		out: list[FuncInfo] = []
		if isinstance(f, ast.Name):
			# nested function of an enclosing scope, module-level function, class constructor, or callable local
			q = func.qualname
			while True:
				cand = func.module.functions.get(f'{q}.<locals>.{f.id}')
				if cand is not None:
					return [cand]
				if '.<locals>.' not in q:
					break
				q = q.rsplit('.<locals>.', 1)[0]
			r = self.idx.resolve_name(func.module, f.id)
			if r is not None and r[0] == 'func':
				return [r[1]]  # type: ignore
			if r is not None and r[0] == 'class':
				init = self.idx.lookup(r[1], '__init__')  # type: ignore
				return [init] if init is not None else []
			for c in env.get(f.id, []):
				m = self.idx.lookup(c, '__call__')
				if m is not None:
					out.append(m)
			return out
		if isinstance(f, ast.Attribute):
			# super().m()
			if isinstance(f.value, ast.Call) and isinstance(f.value.func, ast.Name) and f.value.func.id == 'super' and func.cls is not None:
				for b in self.idx.mro(func.cls)[1:]:
					m = b.method(f.attr)
					if m is not None:
						return [m]
				return []
			recv = self.expr_types(func, f.value, env)
			if not recv:
				r = self.idx.resolve_name(func.module, attr_chain(f) or '')
				if r is not None and r[0] == 'func':
					return [r[1]]  # type: ignore
				if r is not None and r[0] == 'class':
					init = self.idx.lookup(r[1], '__init__')  # type: ignore
					return [init] if init is not None else []
				return []
			seen = set()
			for c in recv:
				targets = self.implementations(c) if widen else [c]
				for t in targets:
					name = f.attr
					m = self.idx.lookup(t, name) or self.idx.lookup(t, mangle(func.cls.name, name) if func.cls else name)
					if m is None and name.startswith('__') and func.cls is not None:
						# private call `self.__m()` resolves only in the defining class
						m = func.cls.method(name)
					if m is not None and id(m) not in seen:
						seen.add(id(m))
						out.append(m)
			return out
		return out

	def calls_in(self, func: FuncInfo) -> list[ast.Call]:
		return [n for n in walk_no_nested(func.node) if isinstance(n, ast.Call)]

	def reachable(self, roots: list[FuncInfo], within=None, follow_nested: bool = True) -> tuple[dict[int, FuncInfo], list[tuple[FuncInfo, ast.Call]]]:
		"""transitive closure of callees; returns (functions by id, unresolved attribute calls on typed-unknown receivers)"""
		seen: dict[int, FuncInfo] = {}
		unresolved: list[tuple[FuncInfo, ast.Call]] = []
		work = list(roots)
		while work:
			f = work.pop()
			if id(f) in seen:
				continue
			if within is not None and not within(f):
				continue
			seen[id(f)] = f
			for call in self.calls_in(f):
				cs = self.callees(f, call)
				if not cs:
					unresolved.append((f, call))
				work.extend(cs)
			# property reads on typed receivers count as calls
			for n in walk_no_nested(f.node):
				if isinstance(n, ast.Attribute) and isinstance(n.ctx, ast.Load):
					for c in self.expr_types(f, n.value):
						for t in self.implementations(c):
							m = self.idx.lookup(t, n.attr)
							if m is not None and m.is_property:
								work.append(m)
			if follow_nested:
				prefix = f.qualname + '.<locals>.'
				for q, g in f.module.functions.items():
					if q.startswith(prefix) and '.<locals>.' not in q[len(prefix):]:
						work.append(g)
		return seen, unresolved
