"""Left folds over `[operand, operator, operand, ...]` chains (one grammar level of binary operators is flattened into one node).
Three sites fold such chains: type inference (ProceduralResolver.each_binary_operator), code generation (Py2Cpp.proc_binary_operation_expression)
and constant folding (LiteralEvaluator._op_bin_each). Python evaluates a same-level chain left to right, one operator per step, so at each site
 (1) the operator used in a step must vary with the step (a loop-invariant operator is only right for single-operator chains), and
 (2) the elements must be consumed front to back (no pop() from the end, no reversed/negative indexing of the element list)."""
from __future__ import annotations

import ast

from vlib.srcindex import unparse

MUTATING = {'pop', 'append', 'extend', 'insert', 'remove', 'popleft', 'appendleft', '__next__'}


def loops_of(fn_node: ast.AST) -> list[ast.AST]:
	return [n for n in ast.walk(fn_node) if isinstance(n, (ast.For, ast.While))]


def variant_names(loop: ast.AST) -> set[str]:
	"""names whose value can differ between iterations: loop targets, names assigned or mutated in the body — closed under 'assigned in the body
	from an expression that mentions a variant name' (a name re-assigned in the body from invariant operands only is NOT variant)"""
	seeds: set[str] = set()
	if isinstance(loop, ast.For):
		seeds |= {x.id for x in ast.walk(loop.target) if isinstance(x, ast.Name)}
	assigns: list[tuple[set[str], ast.AST]] = []
	for n in ast.walk(loop):
		if n is loop:
			continue
		if isinstance(n, ast.AugAssign) and isinstance(n.target, ast.Name):
			seeds.add(n.target.id)  # i += 2
		elif isinstance(n, (ast.Assign, ast.AnnAssign)) and getattr(n, 'value', None) is not None:
			tg = n.targets if isinstance(n, ast.Assign) else [n.target]
			names = {x.id for t in tg for x in ast.walk(t) if isinstance(x, ast.Name) and isinstance(x.ctx, ast.Store)}
			assigns.append((names, n.value))
		elif isinstance(n, ast.Call) and isinstance(n.func, ast.Attribute) and n.func.attr in MUTATING and isinstance(n.func.value, ast.Name):
			seeds.add(n.func.value.id)  # stack.pop(): the container changes per iteration
		elif isinstance(n, ast.Call) and isinstance(n.func, ast.Name) and n.func.id == 'next' and n.args and isinstance(n.args[0], ast.Name):
			seeds.add(n.args[0].id)
		elif isinstance(n, (ast.For, ast.comprehension)):
			pass
	out = set(seeds)
	changed = True
	while changed:
		changed = False
		for names, value in assigns:
			if names <= out:
				continue
			if any(isinstance(x, ast.Name) and x.id in out for x in ast.walk(value)):
				out |= names
				changed = True
	return out


def is_variant(loop: ast.AST, expr: ast.AST) -> bool:
	v = variant_names(loop)
	return any(isinstance(x, ast.Name) and x.id in v for x in ast.walk(expr))


def enclosing_loop(fn_node: ast.AST, node: ast.AST) -> ast.AST | None:
	from vlib.flow import parent_map
	pm = parent_map(fn_node)
	cur = node
	while id(cur) in pm:
		cur = pm[id(cur)]
		if isinstance(cur, (ast.For, ast.While)):
			return cur
		if isinstance(cur, (ast.FunctionDef, ast.Lambda)):
			return None
	return None


def backward_consumers(fn_node: ast.AST, roots: set[str]) -> list[ast.AST]:
	"""accesses that take elements from the END of a list derived from `roots` (parameter names): x.pop() / x.pop(-1), reversed(x), x[::-1], x[-k]"""
	derived = set(roots)
	changed = True
	while changed:
		changed = False
		for n in ast.walk(fn_node):
			if isinstance(n, (ast.Assign, ast.AnnAssign)) and getattr(n, 'value', None) is not None:
				tg = n.targets[0] if isinstance(n, ast.Assign) else n.target
				if isinstance(tg, ast.Name) and tg.id not in derived:
					v = n.value
					# copies / slices / list(x) of a derived list are derived; element reads (x[i]) are not
					base = v
					if isinstance(v, ast.Call) and isinstance(v.func, ast.Name) and v.func.id in ('list', 'tuple', 'deque') and v.args:
						base = v.args[0]
					if isinstance(v, ast.Call) and isinstance(v.func, ast.Attribute) and v.func.attr == 'copy':
						base = v.func.value
					if isinstance(base, ast.Subscript) and isinstance(base.slice, ast.Slice):
						base = base.value
					if isinstance(base, (ast.List, ast.Tuple)) and any(isinstance(e, ast.Starred) and isinstance(e.value, ast.Name) and e.value.id in derived for e in base.elts):
						derived.add(tg.id)
						changed = True
					elif isinstance(base, ast.Name) and base.id in derived:
						derived.add(tg.id)
						changed = True
	out = []
	for n in ast.walk(fn_node):
		if isinstance(n, ast.Call) and isinstance(n.func, ast.Attribute) and n.func.attr == 'pop' and isinstance(n.func.value, ast.Name) and n.func.value.id in derived:
			if not n.args or unparse(n.args[0]).startswith('-'):
				out.append(n)
		elif isinstance(n, ast.Call) and isinstance(n.func, ast.Name) and n.func.id == 'reversed' and n.args and any(isinstance(x, ast.Name) and x.id in derived for x in ast.walk(n.args[0])):
			out.append(n)
		elif isinstance(n, ast.Subscript) and isinstance(n.value, ast.Name) and n.value.id in derived:
			sl = n.slice
			if isinstance(sl, ast.Slice) and sl.step is not None and unparse(sl.step).startswith('-'):
				out.append(n)
			elif isinstance(sl, ast.UnaryOp) and isinstance(sl.op, ast.USub) and isinstance(n.ctx, ast.Load):
				out.append(n)
	return out
