"""Anchoring lint: prefix / suffix / substring / split / replace / regex / length tests on structured strings
(user identifiers and DSNs built from them, scope DSNs carrying @id suffixes, index paths) must be anchored on the
structure's separator or compare whole elements. Used by C08 (identifier spelling), C01-d (scope containment) and
C03-e (index paths)."""
from __future__ import annotations

import ast
from dataclasses import dataclass, field

from vlib.srcindex import FuncInfo, ModuleInfo, attr_chain, unparse, walk_no_nested

IDENT_CHARS = set('abcdefghijklmnopqrstuvwxyzABCDEFGHIJKLMNOPQRSTUVWXYZ0123456789_')


def _is_sep_char(c: str) -> bool:
	return c not in IDENT_CHARS


@dataclass
class Site:
	func: FuncInfo
	node: ast.AST
	kind: str  # prefix | suffix | substr | split | replace | regex | lencmp | slicelen
	recv: ast.AST | None
	arg: ast.AST | None
	labels: set[str] = field(default_factory=set)  # taint labels of the receiver (and for substr/regex of the argument)
	anchored: bool = False
	why: str = ''

	@property
	def text(self) -> str:
		return unparse(self.node)

	@property
	def key(self) -> str:
		return f'{self.func.module.relpath}:{self.func.qualname}:{self.text}'


def _coll(labels: set[str]) -> set[str]:
	return {l if l.endswith('[]') else l + '[]' for l in labels}


def _elem(labels: set[str]) -> set[str]:
	return {l[:-2] if l.endswith('[]') else l for l in labels}


def is_string_labels(labels: set[str]) -> bool:
	return any(not l.endswith('[]') for l in labels)


class Taint:
	"""function-local taint: which expressions carry structured name strings. `param_taint(func, argname) -> set[str]` and
	`attr_taint(attrname) -> set[str]` are supplied by the property; propagation is generic."""

	PROPAGATING_METHODS = {'replace', 'strip', 'lstrip', 'rstrip', 'lower', 'upper', 'format', 'join', 'split', 'rsplit', 'partition', 'removeprefix', 'removesuffix', 'elements', 'left', 'right', 'shift', 'root', 'parent', 'joined', 'relativefy', 'identify', 'full_joined', 'local_joined', 'expanded', 'parsed'}

	def __init__(self, func: FuncInfo, attr_taint, param_taint, call_taint=None) -> None:
		self.func = func
		self.attr_taint = attr_taint
		self.call_taint = call_taint
		self.env: dict[str, set[str]] = {}
		cur: FuncInfo | None = func
		chain = []
		while cur is not None:
			chain.append(cur)
			outer_q = cur.qualname.rsplit('.<locals>.', 1)[0] if '.<locals>.' in cur.qualname else None
			cur = cur.module.functions.get(outer_q) if outer_q else None
		for f in reversed(chain):
			a = f.node.args
			for p in a.posonlyargs + a.args + a.kwonlyargs + ([a.vararg] if a.vararg else []):
				t = param_taint(f, p)
				if t:
					self.env[p.arg] = set(t)
		for _ in range(3):
			for f in reversed(chain):
				self._propagate(f.node)

	def _bind(self, target: ast.AST, labels: set[str]) -> None:
		if not labels:
			return
		if isinstance(target, ast.Name):
			self.env.setdefault(target.id, set()).update(labels)
		elif isinstance(target, (ast.Tuple, ast.List)):
			for e in target.elts:
				self._bind(e, labels)
		elif isinstance(target, ast.Starred):
			self._bind(target.value, labels)

	def _propagate(self, root: ast.AST) -> None:
		for n in walk_no_nested(root):
			if isinstance(n, ast.Assign):
				lab = self.of(n.value)
				for t in n.targets:
					self._bind(t, lab)
			elif isinstance(n, ast.AnnAssign) and n.value is not None:
				self._bind(n.target, self.of(n.value))
			elif isinstance(n, ast.AugAssign):
				self._bind(n.target, self.of(n.value))
			elif isinstance(n, (ast.For, ast.AsyncFor)):
				self._bind(n.target, _elem(self.of(n.iter)))
			elif isinstance(n, ast.comprehension):
				self._bind(n.target, _elem(self.of(n.iter)))
			elif isinstance(n, ast.NamedExpr):
				self._bind(n.target, self.of(n.value))
			elif isinstance(n, ast.Lambda):
				pass

	def of(self, e: ast.AST | None) -> set[str]:
		if e is None:
			return set()
		if isinstance(e, ast.Name):
			return set(self.env.get(e.id, ()))
		if isinstance(e, ast.Attribute):
			t = self.attr_taint(e)
			if t:
				return set(t)
			return set()
		if isinstance(e, ast.Subscript):
			base = self.of(e.value)
			if isinstance(e.slice, ast.Slice):
				return base
			return _elem(base) if not is_string_labels(base) else base
		if isinstance(e, ast.JoinedStr):
			out: set[str] = set()
			for v in e.values:
				if isinstance(v, ast.FormattedValue):
					out |= self.of(v.value)
			return out
		if isinstance(e, ast.BinOp) and isinstance(e.op, (ast.Add, ast.Mod)):
			return self.of(e.left) | self.of(e.right)
		if isinstance(e, ast.IfExp):
			return self.of(e.body) | self.of(e.orelse)
		if isinstance(e, ast.BoolOp):
			out = set()
			for v in e.values:
				out |= self.of(v)
			return out
		if isinstance(e, (ast.List, ast.Tuple, ast.Set)):
			out = set()
			for v in e.elts:
				out |= self.of(v.value) if isinstance(v, ast.Starred) else _coll(self.of(v))
			return out
		if isinstance(e, ast.DictComp):
			for g in e.generators:
				self._bind(g.target, _elem(self.of(g.iter)))
			return _coll(self.of(e.key))
		if isinstance(e, ast.Starred):
			return self.of(e.value)
		if isinstance(e, (ast.ListComp, ast.GeneratorExp, ast.SetComp)):
			# bind comprehension targets first
			for g in e.generators:
				self._bind(g.target, _elem(self.of(g.iter)))
			return _coll(self.of(e.elt))
		if isinstance(e, ast.Call):
			if self.call_taint is not None:
				t = self.call_taint(self, e)
				if t is not None:
					return set(t)
			if isinstance(e.func, ast.Attribute):
				if e.func.attr in ('split', 'rsplit', 'partition', 'rpartition', 'elements', 'expanded', 'expand_elements'):
					out = self.of(e.func.value)
					for a in e.args:
						out |= self.of(a)
					return _coll(out)
				if e.func.attr == 'join':
					out = set()
					for a in e.args:
						out |= _elem(self.of(a))
					return out
				if e.func.attr in self.PROPAGATING_METHODS:
					out = self.of(e.func.value)
					for a in e.args:
						out |= self.of(a)
					return out
				if e.func.attr in ('items', 'keys', 'values', 'copy'):
					return self.of(e.func.value)
			if isinstance(e.func, ast.Name) and e.func.id in ('str', 'list', 'reversed', 'sorted', 'enumerate', 'zip', 'tuple', 'cast', 'as_a'):
				out = set()
				for a in e.args:
					out |= self.of(a)
				return out
			return set()
		return set()


# ---- anchoring of the compared text ------------------------------------------------------------------------------

def _default_of_param(func: FuncInfo, name: str) -> ast.AST | None:
	a = func.node.args
	pos = a.posonlyargs + a.args
	defaults = [None] * (len(pos) - len(a.defaults)) + list(a.defaults)
	for p, d in zip(pos, defaults):
		if p.arg == name:
			return d
	for p, d in zip(a.kwonlyargs, a.kw_defaults):
		if p.arg == name:
			return d
	return None


def text_edge(func: FuncInfo, e: ast.AST | None, side: str) -> str | None:
	"""the constant character at the `first`/`last` edge of the string expression, if statically known"""
	if e is None:
		return None
	if isinstance(e, ast.Constant) and isinstance(e.value, str) and e.value:
		return e.value[0] if side == 'first' else e.value[-1]
	if isinstance(e, ast.JoinedStr) and e.values:
		v = e.values[0] if side == 'first' else e.values[-1]
		if isinstance(v, ast.Constant) and isinstance(v.value, str) and v.value:
			return v.value[0] if side == 'first' else v.value[-1]
		if isinstance(v, ast.FormattedValue):
			return text_edge(func, v.value, side)
		return None
	if isinstance(e, ast.BinOp) and isinstance(e.op, ast.Add):
		return text_edge(func, e.left if side == 'first' else e.right, side)
	if isinstance(e, ast.Name):
		d = _default_of_param(func, e.id)
		# a parameter counts as its default only when it is named like a delimiter (callers pass separators)
		if d is not None and e.id in ('delimiter', 'separator', 'sep'):
			return text_edge(func, d, side)
		# a local bound once to a string-building expression (`child_prefix = f'{key}.'`) has the edge of that expression
		if func is not None and e.id not in func.params():
			from vlib.norm import Expander
			v = Expander(func).local_def(e.id)
			if isinstance(v, (ast.Constant, ast.JoinedStr, ast.BinOp)):
				return text_edge(func, v, side)
		return None
	if isinstance(e, ast.Attribute) and attr_chain(e) in ('os.sep', 'os.path.sep'):
		return '/'
	return None


def is_sep_only(func: FuncInfo, e: ast.AST | None) -> bool:
	if isinstance(e, ast.Constant) and isinstance(e.value, str) and e.value:
		return all(_is_sep_char(c) for c in e.value)
	if isinstance(e, ast.Name) and e.id in ('delimiter', 'separator', 'sep') and func is not None:
		d = _default_of_param(func, e.id)
		return d is not None and is_sep_only(func, d)
	if isinstance(e, ast.Attribute) and attr_chain(e) in ('os.sep', 'os.path.sep'):
		return True
	return False


def has_sep(e: ast.AST | None) -> bool:
	"""constant text containing at least one non-identifier character (an identifier's spelling alone cannot produce it)"""
	if isinstance(e, ast.Constant) and isinstance(e.value, str):
		return any(_is_sep_char(c) for c in e.value)
	if isinstance(e, ast.JoinedStr):
		return any(has_sep(v) for v in e.values if isinstance(v, ast.Constant))
	return False


def _inside_measure(root: ast.AST, name_node: ast.Name) -> bool:
	"""the occurrence of the element variable is only measured: x.count(sep), len(x.split(sep)), int(x...)"""
	for n in ast.walk(root):
		if isinstance(n, ast.Call):
			if isinstance(n.func, ast.Attribute) and n.func.attr == 'count' and n.func.value is name_node and n.args and is_sep_only(None, n.args[0]):  # type: ignore
				return True
			if isinstance(n.func, ast.Name) and n.func.id in ('len', 'int') and any(x is name_node for a in n.args for x in ast.walk(a)):
				inner = n.args[0]
				if n.func.id == 'int' or (isinstance(inner, ast.Call) and isinstance(inner.func, ast.Attribute) and inner.func.attr in ('split', 'elements')):
					return True
	return False


def find_sites(func: FuncInfo, taint: Taint) -> list[Site]:
	sites: list[Site] = []
	for n in walk_no_nested(func.node):
		if isinstance(n, ast.Call) and isinstance(n.func, ast.Attribute):
			m, recv = n.func.attr, n.func.value
			arg = n.args[0] if n.args else None
			if m == 'startswith':
				edge = text_edge(func, arg, 'last')
				sites.append(Site(func, n, 'prefix', recv, arg, taint.of(recv), edge is not None and _is_sep_char(edge), f'prefix ends with {edge!r}'))
			elif m == 'endswith':
				edge = text_edge(func, arg, 'first')
				sites.append(Site(func, n, 'suffix', recv, arg, taint.of(recv), edge is not None and _is_sep_char(edge), f'suffix begins with {edge!r}'))
			elif m in ('find', 'rfind', 'index', 'rindex', 'count') and arg is not None:
				lab = taint.of(recv)
				sites.append(Site(func, n, 'substr', recv, arg, lab, is_sep_only(func, arg), 'searched text is separator-only'))
			elif m in ('split', 'rsplit', 'partition', 'rpartition'):
				sites.append(Site(func, n, 'split', recv, arg, taint.of(recv), arg is None or is_sep_only(func, arg), 'split on a separator'))
			elif m == 'replace' and arg is not None:
				sites.append(Site(func, n, 'replace', recv, arg, taint.of(recv), is_sep_only(func, arg), 'replaces a separator-only text'))
			elif attr_chain(n.func) in ('re.sub', 're.search', 're.match', 're.fullmatch', 're.split', 're.findall', 're.compile') and n.args:
				pat = n.args[0]
				subj = n.args[-1] if len(n.args) > 1 else None
				lab = taint.of(pat)
				# a pattern interpolating names is the sink; constant patterns on tainted subjects are generic (\w+) and not name-relative
				sites.append(Site(func, n, 'regex', subj, pat, lab, not lab, 'pattern interpolates no name-carrying value'))
		if isinstance(n, ast.Call):
			# ordering of structured strings: sorted(xs[, key=...]), xs.sort([key=...]), min/max(xs)
			fname = n.func.id if isinstance(n.func, ast.Name) else (n.func.attr if isinstance(n.func, ast.Attribute) else None)
			coll = None
			if fname in ('sorted', 'min', 'max') and isinstance(n.func, ast.Name) and n.args:
				coll = n.args[0]
			elif fname == 'sort' and isinstance(n.func, ast.Attribute):
				coll = n.func.value
			if coll is not None:
				lab = taint.of(coll)
				if lab:
					keyf = next((k.value for k in n.keywords if k.arg == 'key'), None)
					structural = False
					if isinstance(keyf, ast.Lambda) and len(keyf.args.args) == 1:
						pname = keyf.args.args[0].arg
						body = keyf.body
						# structural keys: x.count(sep), len(DSN.elements(x)), int(...) of an element — never the string itself
						uses_raw = any(isinstance(x, ast.Name) and x.id == pname and not _inside_measure(body, x) for x in ast.walk(body))
						structural = not uses_raw
					sites.append(Site(func, n, 'order', coll, keyf, lab, structural, 'ordered by a structural measure (separator count / parsed integers), not by string comparison'))
		if isinstance(n, ast.Compare) and len(n.ops) == 1 and isinstance(n.ops[0], (ast.Lt, ast.LtE, ast.Gt, ast.GtE)):
			la, lb = taint.of(n.left), taint.of(n.comparators[0])
			if la and lb and is_string_labels(la) and is_string_labels(lb):
				sites.append(Site(func, n, 'order', n.left, n.comparators[0], la | lb, False, 'compares two structured strings lexicographically'))
		if isinstance(n, ast.Compare) and len(n.ops) == 1:
			op = n.ops[0]
			if isinstance(op, (ast.In, ast.NotIn)):
				hay, needle = n.comparators[0], n.left
				lab = taint.of(hay)
				# substring test only when the haystack is a string (labels ending in '[]' denote collections: whole-element membership)
				if lab and is_string_labels(lab) and not isinstance(hay, (ast.List, ast.Tuple, ast.Dict, ast.Set, ast.ListComp)):
					sites.append(Site(func, n, 'substr', hay, needle, lab, is_sep_only(func, needle), 'searched text is separator-only'))
			elif isinstance(op, (ast.Lt, ast.LtE, ast.Gt, ast.GtE)):
				def len_arg(e):
					return e.args[0] if isinstance(e, ast.Call) and isinstance(e.func, ast.Name) and e.func.id == 'len' and e.args else None
				a, b = len_arg(n.left), len_arg(n.comparators[0])
				if a is not None and b is not None:
					lab = taint.of(a) | taint.of(b)
					sites.append(Site(func, n, 'lencmp', a, b, lab, False, 'compares lengths of two strings'))
		elif isinstance(n, ast.Subscript) and isinstance(n.slice, ast.Slice):
			for bound in (n.slice.lower, n.slice.upper):
				if isinstance(bound, ast.Call) and isinstance(bound.func, ast.Name) and bound.func.id == 'len' and bound.args:
					lab = taint.of(n.value) | taint.of(bound.args[0])
					# slicing a list of whole elements by the length of another element list is element-wise: not a sink
					if is_string_labels(taint.of(n.value)):
						sites.append(Site(func, n, 'slicelen', n.value, bound.args[0], lab, False, 'slices by the length of another string'))
	return sites
