"""NodeModel: the node classes of rogw/tranp/syntax/node/definition, their expandable properties, classifications and
the ordered tag -> class dispatch table of providers/syntax/resolver.py — all read by ast."""
from __future__ import annotations

import ast
import re

from vlib.core import AnalysisError
from vlib.srcindex import ClassInfo, FuncInfo, ModuleInfo, SourceIndex, attr_chain, unparse

DEF_GLOB = 'rogw/tranp/syntax/node/definition/*.py'
NODE_PY = 'rogw/tranp/syntax/node/node.py'
RESOLVER_PY = 'rogw/tranp/providers/syntax/resolver.py'
STRING_PY = 'rogw/tranp/lang/string.py'


def snakelize(name: str) -> str:
	return re.sub('^[_]+', '', re.sub('([A-Z])', r'_\1', name).lower())


class NodeModel:
	def __init__(self, idx: SourceIndex) -> None:
		self.idx = idx
		self.node_mod = idx.mod(NODE_PY)
		self.node_cls = self.node_mod.cls('Node')
		self.def_mods = [idx.mod(p) for p in idx.glob(DEF_GLOB)]
		self.classes: list[ClassInfo] = []
		for m in self.def_mods:
			for c in m.classes.values():
				if c.outer is None and self.is_node_class(c):
					self.classes.append(c)
		self.by_name: dict[str, ClassInfo] = {}
		for c in self.classes:
			self.by_name.setdefault(c.name, c)
		self._check_snakelize()
		self.mapping, self.fallback = self._read_mapping()

	def is_node_class(self, c: ClassInfo) -> bool:
		try:
			return self.node_cls in self.idx.mro(c)
		except AnalysisError:
			return False

	def files(self) -> list[str]:
		return [m.relpath for m in self.def_mods] + [NODE_PY, RESOLVER_PY, STRING_PY]

	def _check_snakelize(self) -> None:
		"""our re-implementation must be the one in lang/string.py (compared by the regexes in its return expression)"""
		from vlib.match import FI, X, calls
		f = self.idx.mod(STRING_PY).func('snakelize')
		ret = [n for n in ast.walk(FI(f)) if isinstance(n, ast.Return)]
		param = f.params()[0] if f.params() else 'org'
		want = r"re.sub('^[_]+', '', re.sub('([A-Z])', '_\\1', %s).lower())" % param
		if len(ret) != 1 or unparse(ret[0].value) != want:
			raise AnalysisError(f'lang/string.py:snakelize changed ({unparse(ret[0].value) if ret else "?"}); NodeModel.snakelize must be re-derived')
		cl = self.node_cls.method('classification')
		if cl is None or not any(unparse(a) == 'self.__class__.__name__' for c in calls(X(cl), 'snakelize') for a in c.args):
			raise AnalysisError('Node.classification is no longer snakelize(self.__class__.__name__)')

	def classification(self, c: ClassInfo) -> str:
		return snakelize(c.name)

	# -- expandable properties ---------------------------------------------------------------------------------

	def is_expandable(self, f: FuncInfo) -> bool:
		for d in f.node.decorator_list:
			if isinstance(d, ast.Call) and attr_chain(d.func) == 'Meta.embed' and any(attr_chain(a) == 'expandable' for a in d.args[1:]):
				return True
		return False

	def own_expandables(self, c: ClassInfo) -> list[FuncInfo]:
		"""expandable properties registered by class c itself, in definition order (== MetaData registration order)"""
		out = []
		for stmt in c.node.body:
			if isinstance(stmt, ast.FunctionDef):
				for f in c.methods.get(stmt.name, []):
					if f.node is stmt and self.is_expandable(f):
						out.append(f)
		return out

	def embed_classes(self, c: ClassInfo) -> list[ClassInfo]:
		"""Node.__embed_classes: reversed MRO restricted to Node subclasses other than Node"""
		return list(reversed([k for k in self.idx.mro(c) if k is not self.node_cls and self.is_node_class(k)]))

	def prop_keys(self, c: ClassInfo) -> list[str]:
		"""Node.prop_keys: concatenation over embed_classes of the names each class registered (dict: a name re-registered by the same class keeps its first position)"""
		keys: list[str] = []
		for k in self.embed_classes(c):
			own: list[str] = []
			for f in self.own_expandables(k):
				if f.name not in own:
					own.append(f.name)
			keys.extend(own)
		return keys

	def prop_func(self, c: ClassInfo, name: str) -> FuncInfo | None:
		"""the property object `getattr(cls, name)` resolves to (first along the MRO)"""
		return self.idx.lookup(c, name)

	# -- dispatch table ------------------------------------------------------------------------------------------

	def _read_mapping(self) -> tuple[list[tuple[ClassInfo, list[str], int]], ClassInfo]:
		m = self.idx.mod(RESOLVER_PY)
		f = m.func('symbol_mapping')
		from vlib.match import FI
		fnode = FI(f)  # locals bound once (e.g. `fallback = defs.Terminal`, `symbols = {...}`) stand for their values
		dicts = [n for n in ast.walk(fnode) if isinstance(n, ast.keyword) and n.arg == 'symbols' and isinstance(n.value, ast.Dict)]
		if len(dicts) != 1:
			raise AnalysisError('providers/syntax/resolver.py: symbols={...} dict literal not found')
		out = []
		for k, v in zip(dicts[0].value.keys, dicts[0].value.values):
			c = self.idx.resolve_class(m, k)
			if c is None:
				raise AnalysisError(f'resolver.py: cannot resolve class {unparse(k)}')
			try:
				tags = ast.literal_eval(v)
			except ValueError:
				raise AnalysisError(f'resolver.py: tags of {unparse(k)} are not a literal list')
			out.append((c, list(tags), k.lineno))
		fb = [n for n in ast.walk(fnode) if isinstance(n, ast.keyword) and n.arg == 'fallback']
		fallback = self.idx.resolve_class(m, fb[0].value) if fb else None
		if fallback is None:
			raise AnalysisError('resolver.py: fallback class not found')
		return out, fallback

	def tag_to_classes(self) -> dict[str, list[ClassInfo]]:
		"""tag -> candidate classes in evaluation order (dict insertion order)"""
		out: dict[str, list[ClassInfo]] = {}
		for c, tags, _ in self.mapping:
			for t in tags:
				out.setdefault(t, []).append(c)
		return out

	def mapped_classes(self) -> list[ClassInfo]:
		seen, out = set(), []
		for c, _, _ in self.mapping:
			if id(c) not in seen:
				seen.add(id(c))
				out.append(c)
		if id(self.fallback) not in seen:
			out.append(self.fallback)
		return out

	def tags_of(self, c: ClassInfo) -> list[str]:
		out = []
		for k, tags, _ in self.mapping:
			if k is c:
				out.extend(tags)
		return out

	def match_feature(self, c: ClassInfo) -> FuncInfo | None:
		return self.idx.lookup(c, 'match_feature')
